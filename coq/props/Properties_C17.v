(* C17 — independent items can be used from different threads without data races.
   Statements only.  No executable Gallina model exhibits hardware interleavings; what is proved is
   the logical core: the library keeps no hidden mutable global state (inventory regenerated from the
   AST on this run) and an operation's result depends only on the cells reachable from its arguments
   (frame property), so operations of different threads on disjoint items cannot influence one
   another.  Schedules are explored by the thr / shared streams under ThreadSanitizer. *)
From CB Require Import Word HHeap HItems HOps HHist HRef_proofs HCont_proofs HRead_proofs Bridge_inventory HHist_proofs HStepInv_proofs HFrame_proofs.
From Coq Require Import List.
Import ListNotations.
From CBGen Require Import Gen_inventory.
Local Open Scope N_scope.

(* every variable with static storage duration in src/ is const and never assigned, or one of the
   three allocator pointers assigned only by cbor_set_allocs, or the never-assigned callback table
   local to cbor_load *)
Theorem C17_no_hidden_mutable_globals : forallb global_ok gen_globals = true.
Proof. exact bridge_globals. Qed.
Print Assumptions C17_no_hidden_mutable_globals.
(* ... nor borrowed from libc: no library function calls a libc function that keeps or returns static / process-wide state *)
Theorem C17_no_libc_static_state : gen_libc_state_refs = [].
Proof. exact bridge_no_libc_static_state. Qed.
Print Assumptions C17_no_libc_static_state.

(* footprint: every cell a read-only traversal touches is reachable from its argument *)
Theorem C17_footprint : forall fuel a w t w', abs fuel a w = Ret t w' ->
  forall reads, alog w' = reads ++ alog w -> forall b, In (AccR b) reads -> reach w a b.
Proof. exact abs_footprint. Qed.
Print Assumptions C17_footprint.

(* frame: two heaps that agree on everything reachable from the argument give the same result *)
Theorem C17_frame : forall fuel a w1 w2 t w1', (forall b, reach w1 a b -> heap w1 b = heap w2 b) ->
  abs fuel a w1 = Ret t w1' -> exists w2', abs fuel a w2 = Ret t w2'.
Proof. exact HRead_proofs.C17_frame. Qed.
Print Assumptions C17_frame.

(* concurrent readers of one shared tree: serialization performs no store (C18), so readers cannot race *)
Theorem C17_readers_do_not_write : forall a n w r w', serialize_h a n w = Ret r w' ->
  forall b, In (AccW b) (alog w') -> In (AccW b) (alog w).
Proof. exact C18_no_writes. Qed.

(* ---- footprint and frame of EVERY client operation (theories/HFrame_proofs.v): all 26 operations
   of HHist.op, the writing ones included (push / set / replace, map_add, add_chunk, tag ops, incref,
   decref, copy, load, serialize_alloc); no ownership rule is assumed, the statements are about
   calls that return.  Vocabulary:
     operands o         = the operand handles of the call (HStepInv_proofs),
     op_reach s o w b   = b is reachable (reach: item references and data blocks) in w from the item
                          denoted by some operand handle,
     footprint s o w b  = op_reach s o w b, or b is at or above the bump pointer of w (allocated by
                          the call itself),
     wf w               = nothing lives at or above the bump pointer (true of every world reached from
                          the empty world: C17_history_frame). ---- *)

(* frame: an existing cell that no operand reaches is exactly what it was - not modified, not
   released; the bump pointer only advances *)
Theorem C17_step_frame : forall refuse L s o w s' out w',
  HCont_proofs.wf w -> step refuse L s o w = Ret (s', out) w' ->
  next w <= next w' /\
  forall b, b < next w -> ~ op_reach s o w b -> heap w' b = heap w b.
Proof. exact HFrame_proofs.C17_step_frame. Qed.
Print Assumptions C17_step_frame.

Theorem C17_step_frame_live : forall refuse L s o w s' out w' b,
  HCont_proofs.wf w -> step refuse L s o w = Ret (s', out) w' ->
  heap w b <> None ->
  (forall h a, In h (operands o) -> hget s h = Some a -> ~ reach w a b) ->
  heap w' b = heap w b.
Proof. exact HFrame_proofs.C17_step_frame_live. Qed.
Print Assumptions C17_step_frame_live.

(* footprint: every access the call logs (reads and writes of existing cells) and every block it
   hands to free / realloc lies in its footprint; every address the allocator hands out is fresh *)
Theorem C17_step_footprint : forall refuse L s o w s' out w',
  HCont_proofs.wf w -> step refuse L s o w = Ret (s', out) w' ->
  (exists acc, alog w' = acc ++ alog w /\ Forall (fun x => footprint s o w (acc_addr x)) acc) /\
  (exists evs, trace w' = evs ++ trace w /\
     Forall (fun e => (forall p, In p (ev_args e) -> footprint s o w p) /\
                      (forall p, In p (ev_res e) -> next w <= p)) evs).
Proof. exact HFrame_proofs.C17_step_footprint. Qed.
Print Assumptions C17_step_footprint.

(* independence: the outcome of a call depends only on the cells reachable from its operands (and on
   the bump pointer and the request counter, i.e. on what the allocator will answer): in any other
   well-formed world that agrees with w on those cells, the same call returns the same handle table
   and the same observable output and ends in a world that agrees with w' on the whole footprint -
   the reachable cells and the freshly allocated ones.  All 26 operations (cbor_decref included,
   although the model derives its fuel from the size of the whole heap). *)
Theorem C17_step_independent : forall refuse L s o w w2 s' out w',
  HCont_proofs.wf w -> step refuse L s o w = Ret (s', out) w' ->
  HCont_proofs.wf w2 -> next w2 = next w -> nreq w2 = nreq w ->
  (forall b, op_reach s o w b -> heap w2 b = heap w b) ->
  exists w2', step refuse L s o w2 = Ret (s', out) w2' /\
    next w2' = next w' /\ nreq w2' = nreq w' /\
    (forall b, footprint s o w b -> heap w2' b = heap w' b).
Proof. exact HFrame_proofs.C17_step_independent. Qed.
Print Assumptions C17_step_independent.

(* two calls on disjoint data: the first leaves the whole operand closure of the second alone *)
Theorem C17_disjoint_calls : forall refuse L s o1 o2 w s' out w',
  HCont_proofs.wf w -> step refuse L s o1 w = Ret (s', out) w' ->
  (forall b, op_reach s o1 w b -> ~ op_reach s o2 w b) ->
  forall b, op_reach s o2 w b -> b < next w -> heap w' b = heap w b.
Proof. exact HFrame_proofs.C17_disjoint_calls. Qed.
Print Assumptions C17_disjoint_calls.

(* at every point of every history from the empty world, legal or not *)
Theorem C17_history_frame : forall refuse L pre o s outs w s' out w',
  run_hist refuse L pre HHist_proofs.s0 [] world0 = Ret (s, outs) w ->
  step refuse L s o w = Ret (s', out) w' ->
  next w <= next w' /\
  (forall b, b < next w -> ~ op_reach s o w b -> heap w' b = heap w b) /\
  (exists acc, alog w' = acc ++ alog w /\ Forall (fun x => footprint s o w (acc_addr x)) acc) /\
  (exists evs, trace w' = evs ++ trace w /\
     Forall (fun e => (forall p, In p (ev_args e) -> footprint s o w p) /\
                      (forall p, In p (ev_res e) -> next w <= p)) evs).
Proof. exact HFrame_proofs.C17_history_frame. Qed.
Print Assumptions C17_history_frame.

(* non-vacuity: two independent arrays; cbor_decref of the first one frees its three cells and, by
   the theorem, leaves the three live cells of the second one alone (HFrame_proofs.ex17_frame) *)
Example C17_example_frame :
  match step HRef_proofs.never 8 (fst ex17_sw) (ODecref 0) (snd ex17_sw) with
  | Ret (s', out) w' =>
      (forall b, In b [4; 5; 6] -> heap w' b = heap (snd ex17_sw) b) /\
      heap w' 4 = Some (CItem 1 (NArr true (Some 6) 1 [5])) /\ heap w' 5 = Some (CItem 2 (NInt false I8 9)) /\
      heap w' 6 = Some (CData 8) /\ heap w' 1 = None /\ heap w' 2 = None /\ heap w' 3 = None /\
      rev (trace w') = rev (trace (snd ex17_sw)) ++ [EvFree (Some 3); EvFree (Some 2); EvFree (Some 1)]
  | Fault _ => False
  end.
Proof. exact ex17_frame. Qed.
(* ... and in a world where a cell of the second array has been altered, the same cbor_decref
   returns the same and agrees on its footprint (theorem applied: ex17_independent; evaluated:) *)
Example C17_example_independent :
  match step HRef_proofs.never 8 (fst ex17_sw) (ODecref 0) ex17_w2 with
  | Ret (s', out) w2' => s' = fst ex17_sw /\ out = OutUnit /\ heap w2' 1 = None /\ heap w2' 2 = None /\
                         heap w2' 3 = None /\ heap w2' 5 = Some (CItem 9 (NCtrl 20)) /\ next w2' = 7
  | Fault _ => False
  end.
Proof. exact ex17_independent_run. Qed.

(* ---- the same over the third layer of client calls (HHist3: op3 / step3); operands3, op_reach3,
   footprint3 are the analogues of operands, op_reach, footprint ---- *)
From CB Require Import HHist2 HHist3.
Theorem C17_step3_frame : forall refuse L s o w s' out w',
  HCont_proofs.wf w -> step3 refuse L s o w = Ret (s', out) w' ->
  next w <= next w' /\
  forall b, b < next w -> ~ op_reach3 s o w b -> heap w' b = heap w b.
Proof. exact HFrame_proofs.C17_step3_frame. Qed.
Print Assumptions C17_step3_frame.
Theorem C17_step3_footprint : forall refuse L s o w s' out w',
  HCont_proofs.wf w -> step3 refuse L s o w = Ret (s', out) w' ->
  (exists acc, alog w' = acc ++ alog w /\ Forall (fun x => footprint3 s o w (acc_addr x)) acc) /\
  (exists evs, trace w' = evs ++ trace w /\
     Forall (fun e => (forall p, In p (ev_args e) -> footprint3 s o w p) /\
                      (forall p, In p (ev_res e) -> next w <= p)) evs).
Proof. exact HFrame_proofs.C17_step3_footprint. Qed.
Print Assumptions C17_step3_footprint.
Theorem C17_step3_independent : forall refuse L s o w w2 s' out w',
  HCont_proofs.wf w -> step3 refuse L s o w = Ret (s', out) w' ->
  HCont_proofs.wf w2 -> next w2 = next w -> nreq w2 = nreq w ->
  (forall b, op_reach3 s o w b -> heap w2 b = heap w b) ->
  exists w2', step3 refuse L s o w2 = Ret (s', out) w2' /\
    next w2' = next w' /\ nreq w2' = nreq w' /\
    (forall b, footprint3 s o w b -> heap w2' b = heap w' b).
Proof. exact HFrame_proofs.C17_step3_independent. Qed.
Print Assumptions C17_step3_independent.
Theorem C17_history3_frame : forall refuse L pre o s outs w s' out w',
  run_hist3 refuse L pre s3_0 [] world0 = Ret (s, outs) w ->
  step3 refuse L s o w = Ret (s', out) w' ->
  next w <= next w' /\
  (forall b, b < next w -> ~ op_reach3 s o w b -> heap w' b = heap w b) /\
  (exists acc, alog w' = acc ++ alog w /\ Forall (fun x => footprint3 s o w (acc_addr x)) acc) /\
  (exists evs, trace w' = evs ++ trace w /\
     Forall (fun e => (forall p, In p (ev_args e) -> footprint3 s o w p) /\
                      (forall p, In p (ev_res e) -> next w <= p)) evs).
Proof. exact HFrame_proofs.C17_history3_frame. Qed.
Print Assumptions C17_history3_frame.
(* non-vacuity: cbor_set_uint8(first, 300) stores 44 into the first of two cbor_new_int8 items and
   leaves the second alone *)
Example C17_example3_frame :
  match step3 HRef_proofs.never 8 (fst ex17c_sw) (O3SetUint I8 0 300) (snd ex17c_sw) with
  | Ret (s', out) w' =>
      heap w' 2 = heap (snd ex17c_sw) 2 /\
      heap w' 1 = Some (CItem 1 (NInt false I8 44)) /\ heap w' 2 = Some (CItem 1 (NInt false I8 9)) /\
      unset (fst ex17c_sw) = [1] /\ unset s' = []
  | Fault _ => False
  end.
Proof. exact ex17c_frame. Qed.


(* ------------------------------------------------------------------------------------------------ *)
(* whole schedules (HInterleave.v, HEquiv_*.v): the model never depends on concrete addresses, so    *)
(* "every thread obtains the same results as it would running alone" holds for EVERY interleaving    *)
(* ------------------------------------------------------------------------------------------------ *)
From CB Require Import HInterleave HEquiv_prims HEquiv_ops HEquiv_proofs.

(* equivariance of every client call of the three API layers under injective renamings of addresses: run in a world [w2]
   that contains a renamed copy of [w1] (and arbitrary other cells), the call returns the SAME observable output, the tables
   and worlds stay related by an extension of the renaming, every cell outside the image is untouched, and everything the call
   touches lies in the image.  Allocator oracles that do not depend on the request index. *)
Theorem C17_step3_equivariant : forall refuse, index_independent refuse -> forall L f s1 s2 o w1 w2 s1' out w1',
  Sim f w1 w2 -> Rcs3 f s1 s2 ->
  step3 refuse L s1 o w1 = Ret (s1', out) w1' ->
  exists f' s2' w2',
    step3 refuse L s2 o w2 = Ret (s2', out) w2' /\
    ext f f' /\ Rcs3 f' s1' s2' /\ Sim f' w1' w2' /\
    (forall b, b < next w2 -> (forall a, f a <> Some b) -> heap w2' b = heap w2 b) /\
    (forall a b, f' a = Some b -> f a = Some b \/ (next w1 <= a /\ next w2 <= b)) /\
    (forall b, next w2 <= b -> b < next w2' -> exists a, f' a = Some b) /\
    next w1 <= next w1' /\ next w2 <= next w2' /\
    (forall p, In p (touched w2 w2') -> exists a, f' a = Some p).
Proof. exact step3_equivariant. Qed.
Print Assumptions C17_step3_equivariant.

(* any number of threads, each with a program over all three API layers and its own handle table, one shared heap and
   allocator: for EVERY complete interleaving of the programs, if each thread alone runs to the end then so does the
   interleaved run, every thread observes exactly the outputs of its run alone, its final table and heap are renamed copies
   of those of the run alone, and the shared heap is the disjoint union of these copies *)
Theorem C17_interleaving : forall refuse, index_independent refuse -> forall L progs sched,
  complete sched (map thread0 progs) ->
  (forall prog, In prog progs -> exists s outs w, run_hist3 refuse L prog s3_0 [] world0 = Ret (s, outs) w) ->
  exists ths w fs,
    run_sched refuse L sched (map thread0 progs) world0 = Ret ths w /\
    length ths = length progs /\ length fs = length progs /\
    (forall t prog s outs wt, nth_error progs t = Some prog ->
       run_hist3 refuse L prog s3_0 [] world0 = Ret (s, outs) wt ->
       exists th f, nth_error ths t = Some th /\ nth_error fs t = Some f /\
         t_prog th = [] /\ outputs th = outs /\ Rcs3 f s (t_state th) /\ Sim f wt w) /\
    disjoint_images fs /\ covered fs w.
Proof. exact HEquiv_proofs.C17_interleaving. Qed.
Print Assumptions C17_interleaving.

Theorem C17_schedule_independent : forall refuse, index_independent refuse -> forall L progs sched1 sched2,
  complete sched1 (map thread0 progs) -> complete sched2 (map thread0 progs) ->
  (forall prog, In prog progs -> exists s outs w, run_hist3 refuse L prog s3_0 [] world0 = Ret (s, outs) w) ->
  exists ths1 w1 ths2 w2,
    run_sched refuse L sched1 (map thread0 progs) world0 = Ret ths1 w1 /\
    run_sched refuse L sched2 (map thread0 progs) world0 = Ret ths2 w2 /\
    map outputs ths1 = map outputs ths2.
Proof. exact HEquiv_proofs.C17_schedule_independent. Qed.
Print Assumptions C17_schedule_independent.

(* no address is touched (read, written, freed, reallocated, obtained) by calls of two different threads: whatever finer
   interleaving of the calls' instructions the hardware produces, two threads never access the same location *)
Theorem C17_no_shared_access : forall refuse, index_independent refuse -> forall L progs sched,
  complete sched (map thread0 progs) ->
  (forall prog, In prog progs -> exists s outs w, run_hist3 refuse L prog s3_0 [] world0 = Ret (s, outs) w) ->
  let log := sched_log refuse L sched (map thread0 progs) world0 in
  map fst log = sched /\
  forall t A t' A' p, In (t, A) log -> In (t', A') log -> t <> t' -> In p A -> In p A' -> False.
Proof. exact HEquiv_proofs.C17_no_shared_access. Qed.
Print Assumptions C17_no_shared_access.

(* non-vacuity: two threads (allocation, push, decref, serialized size, cbor_new_int8 + set, predicates), two schedules *)
Example C17_interleaving_nonvacuous :
  exists ths1 w1 ths2 w2,
    run_sched never 8 ex_sched (map thread0 [exA; exB]) world0 = Ret ths1 w1 /\
    run_sched never 8 ex_sched' (map thread0 [exA; exB]) world0 = Ret ths2 w2 /\
    map outputs ths1 = map outputs ths2.
Proof. exact ex_by_theorem. Qed.
