(* C17 — independent items can be used from different threads without data races.
   Statements only.  No executable Gallina model exhibits hardware interleavings; what is proved is
   the logical core: the library keeps no hidden mutable global state (inventory regenerated from the
   AST on this run) and an operation's result depends only on the cells reachable from its arguments
   (frame property), so operations of different threads on disjoint items cannot influence one
   another.  Schedules are explored by the thr / shared streams under ThreadSanitizer. *)
From CB Require Import Word HHeap HItems HOps HRead_proofs Bridge_inventory.
From CBGen Require Import Gen_inventory.
Local Open Scope N_scope.

(* every variable with static storage duration in src/ is const and never assigned, or one of the
   three allocator pointers assigned only by cbor_set_allocs, or the never-assigned callback table
   local to cbor_load *)
Theorem C17_no_hidden_mutable_globals : forallb global_ok gen_globals = true.
Proof. exact bridge_globals. Qed.
Print Assumptions C17_no_hidden_mutable_globals.

(* footprint: every cell a read-only traversal touches is reachable from its argument *)
Theorem C17_footprint : forall fuel a w t w', abs fuel a w = Ret t w' ->
  forall reads, alog w' = reads ++ alog w -> forall b, In (AccR b) reads -> reach w a b.
Proof. exact abs_footprint. Qed.
Print Assumptions C17_footprint.

(* frame: two heaps that agree on everything reachable from the argument give the same result *)
Theorem C17_frame : forall fuel a w1 w2 t w1', (forall b, reach w1 a b -> heap w1 b = heap w2 b) ->
  abs fuel a w1 = Ret t w1' -> exists w2', abs fuel a w2 = Ret t w2'.
Proof. exact HRead_proofs.C17_frame. Qed.
Print Assumptions C17_frame.

(* concurrent readers of one shared tree: serialization performs no store (C18), so readers cannot race *)
Theorem C17_readers_do_not_write : forall a n w r w', serialize_h a n w = Ret r w' ->
  forall b, In (AccW b) (alog w') -> In (AccW b) (alog w).
Proof. exact C18_no_writes. Qed.
