(* C06 — any allocation failure is reported cleanly, atomically and without leaks.
   Statements only (generated from the types of the lemmas proved in theories/HCont_proofs.v and
   HRef_proofs.v).  The allocator oracle [refuse : request index -> size -> bool] is arbitrary in
   every theorem: "refuse the k-th request only" and "refuse every request from k on" are instances.
   clean_failure: the heap is cell-for-cell what it was, everything the call had allocated is
   released again, nothing else was touched. *)
From CB Require Import Word PMem PStream PBuild HHeap HItems HOps HCont_proofs HRef_proofs HRead_proofs HCopy_proofs HLoad_proofs.
(* cbor_new_definite_array: whichever request is refused (item, slots, or the size guard) -> NULL and a clean heap *)
Theorem C06_new_definite_array_refusal :
  forall (refuse : N -> N -> bool) (n : N) (w w' : world),
         wf w ->
         new_definite_array refuse n w = Ret None w' ->
         clean_failure refuse true SZ_ITEM w w'.
Proof. exact new_definite_array_refusal. Qed.
Print Assumptions C06_new_definite_array_refusal.
(* cbor_new_definite_map *)
Theorem C06_new_definite_map_refusal :
  forall (refuse : N -> N -> bool) (n : N) (w w' : world),
         wf w ->
         new_definite_map refuse n w = Ret None w' ->
         clean_failure refuse true SZ_ITEM w w'.
Proof. exact new_definite_map_refusal. Qed.
Print Assumptions C06_new_definite_map_refusal.
(* cbor_new_indefinite_bytestring / _string *)
Theorem C06_new_indefinite_string_refusal :
  forall (refuse : N -> N -> bool) (text : bool) (w w' : world),
         wf w ->
         new_indefinite_string refuse text w = Ret None w' ->
         clean_failure refuse false SZ_ITEM w w'.
Proof. exact new_indefinite_string_refusal. Qed.
Print Assumptions C06_new_indefinite_string_refusal.
(* cbor_build_bytestring / cbor_build_stringn *)
Theorem C06_build_string_refusal :
  forall (refuse : N -> N -> bool) (text : bool) 
           (bytes : list N) (w w' : world),
         wf w ->
         build_string refuse text bytes w = Ret None w' ->
         clean_failure refuse false SZ_ITEM w w'.
Proof. exact build_string_refusal. Qed.
Print Assumptions C06_build_string_refusal.
(* the constructors never crash, whatever the allocator answers *)
Theorem C06_constructors_total :
  forall (refuse : N -> N -> bool) (n : N) (text : bool)
           (bytes : list N) (w : world),
         (exists (r : option addr) (w' : world),
            new_definite_array refuse n w = Ret r w') /\
         (exists (r : option addr) (w' : world),
            new_definite_map refuse n w = Ret r w') /\
         (exists (r : option addr) (w' : world),
            new_indefinite_string refuse text w = Ret r w') /\
         (exists (r : option addr) (w' : world),
            build_string refuse text bytes w = Ret r w').
Proof. exact constructors_total. Qed.
Print Assumptions C06_constructors_total.
(* reading of heap_eq: live cells unchanged and nothing new left allocated *)
Theorem C06_heap_eq_no_leak :
  forall w w' : world,
         heap_eq w w' ->
         (forall (b : addr) (c : cell), heap w b = Some c -> heap w' b = Some c) /\
         (forall b : addr, heap w b = None -> heap w' b = None).
Proof. exact heap_eq_no_leak. Qed.
Print Assumptions C06_heap_eq_no_leak.
(* leaf constructors (ints, floats, simple values): refused -> NULL, heap and invariant unchanged *)
Theorem C06_build_int : forall refuse own ownd neg iw v w r w', Inv own ownd [] w ->
  build_int refuse neg iw v w = Ret r w' -> fresh_item_post own ownd w r w'.
Proof. exact build_int_preserves. Qed.
Theorem C06_build_float : forall refuse own ownd fw b w r w', Inv own ownd [] w ->
  build_float refuse fw b w = Ret r w' -> fresh_item_post own ownd w r w'.
Proof. exact build_float_preserves. Qed.
Theorem C06_build_ctrl : forall refuse own ownd v w r w', Inv own ownd [] w ->
  build_ctrl refuse v w = Ret r w' -> fresh_item_post own ownd w r w'.
Proof. exact build_ctrl_preserves. Qed.
Print Assumptions C06_build_ctrl.
(* container growth under refusal (push / map add / add chunk): false and same_heap — see the
   refused branches of C12_push_indefinite, C12_map_add_indefinite, C12_add_chunk_spec. *)
Theorem C06_push_refused :
  forall (refuse : N -> N -> bool) (a x : addr) (w : world) (rc : N) (data : option addr) (allocated : N)
         (elems : list addr) (rcx : N) (nx : node) c bytes,
  wf w -> heap w a = Some (CItem rc (NArr true data allocated elems)) -> block_inv w data allocated ->
  heap w x = Some (CItem rcx nx) -> a <> x -> (allocated < 2 ^ 64)%N -> (allocated <= len elems)%N ->
  grow_req SZ_PTR allocated = Some (c, bytes) -> refuse (nreq w) bytes = true ->
  exists w', array_push refuse a x w = Ret false w' /\ same_heap w w' /\ no_new_write w w'.
Proof. exact push_refused_atomic. Qed.
Print Assumptions C06_push_refused.

(* cbor_copy under an arbitrary refusal schedule: NULL and the heap cell-for-cell as before *)
Theorem C06_copy_clean_failure :
  forall (refuse : N -> N -> bool) (fuel : nat) 
           (a : addr) (w : world) (own ownd : addr -> N) 
           (w' : world),
         Inv own ownd [] w ->
         shaped fuel (heap w) a ->
         copy refuse fuel a w = Ret None w' ->
         (forall b : addr, heap w' b = heap w b) /\ Inv own ownd [] w'.
Proof. exact C06_copy_clean_failure. Qed.
Print Assumptions C06_copy_clean_failure.

(* cbor_load under an arbitrary refusal schedule (and on any malformed input): NULL, an error code, every pre-existing cell untouched, nothing left allocated *)
Theorem C06_load_h_clean_failure :
  forall (refuse : N -> N -> bool) (L : N) (own ownd : addr -> N)
           (buf : list N) (w : world) (code : lerr) 
           (pos rd : N) (w' : world),
         bytes_ok buf ->
         (len buf < SIZE_MAX)%N ->
         HCont_proofs.wf w ->
         Inv own ownd [] w ->
         load_h refuse L buf w = Ret (None, code, pos, rd) w' ->
         code <> ENone /\
         (forall b : N, (b < next w)%N -> heap w' b = heap w b) /\
         (forall b : N, (next w <= b)%N -> heap w' b = None) /\
         Inv own ownd [] w' /\ (next w <= next w')%N.
Proof. exact load_h_clean_failure. Qed.
Print Assumptions C06_load_h_clean_failure.

