(* C06 — any allocation failure is reported cleanly, atomically and without leaks.
   Statements only (generated from the types of the lemmas proved in theories/HCont_proofs.v and
   HRef_proofs.v).  The allocator oracle [refuse : request index -> size -> bool] is arbitrary in
   every theorem: "refuse the k-th request only" and "refuse every request from k on" are instances.
   clean_failure: the heap is cell-for-cell what it was, everything the call had allocated is
   released again, nothing else was touched. *)
From CB Require Import Word PMem PStream PBuild HHeap HItems HOps HCont_proofs HRef_proofs HRead_proofs HCopy_proofs HLoad_proofs.
(* cbor_new_definite_array: whichever request is refused (item, slots, or the size guard) -> NULL and a clean heap *)
Theorem C06_new_definite_array_refusal :
  forall (refuse : N -> N -> bool) (n : N) (w w' : world),
         wf w ->
         new_definite_array refuse n w = Ret None w' ->
         clean_failure refuse true SZ_ITEM w w'.
Proof. exact new_definite_array_refusal. Qed.
Print Assumptions C06_new_definite_array_refusal.
(* cbor_new_definite_map *)
Theorem C06_new_definite_map_refusal :
  forall (refuse : N -> N -> bool) (n : N) (w w' : world),
         wf w ->
         new_definite_map refuse n w = Ret None w' ->
         clean_failure refuse true SZ_ITEM w w'.
Proof. exact new_definite_map_refusal. Qed.
Print Assumptions C06_new_definite_map_refusal.
(* cbor_new_indefinite_bytestring / _string *)
Theorem C06_new_indefinite_string_refusal :
  forall (refuse : N -> N -> bool) (text : bool) (w w' : world),
         wf w ->
         new_indefinite_string refuse text w = Ret None w' ->
         clean_failure refuse false SZ_ITEM w w'.
Proof. exact new_indefinite_string_refusal. Qed.
Print Assumptions C06_new_indefinite_string_refusal.
(* cbor_build_bytestring / cbor_build_stringn *)
Theorem C06_build_string_refusal :
  forall (refuse : N -> N -> bool) (text : bool) 
           (bytes : list N) (w w' : world),
         wf w ->
         build_string refuse text bytes w = Ret None w' ->
         clean_failure refuse false SZ_ITEM w w'.
Proof. exact build_string_refusal. Qed.
Print Assumptions C06_build_string_refusal.
(* the constructors never crash, whatever the allocator answers *)
Theorem C06_constructors_total :
  forall (refuse : N -> N -> bool) (n : N) (text : bool)
           (bytes : list N) (w : world),
         (exists (r : option addr) (w' : world),
            new_definite_array refuse n w = Ret r w') /\
         (exists (r : option addr) (w' : world),
            new_definite_map refuse n w = Ret r w') /\
         (exists (r : option addr) (w' : world),
            new_indefinite_string refuse text w = Ret r w') /\
         (exists (r : option addr) (w' : world),
            build_string refuse text bytes w = Ret r w').
Proof. exact constructors_total. Qed.
Print Assumptions C06_constructors_total.
(* reading of heap_eq: live cells unchanged and nothing new left allocated *)
Theorem C06_heap_eq_no_leak :
  forall w w' : world,
         heap_eq w w' ->
         (forall (b : addr) (c : cell), heap w b = Some c -> heap w' b = Some c) /\
         (forall b : addr, heap w b = None -> heap w' b = None).
Proof. exact heap_eq_no_leak. Qed.
Print Assumptions C06_heap_eq_no_leak.
(* leaf constructors (ints, floats, simple values): refused -> NULL, heap and invariant unchanged *)
Theorem C06_build_int : forall refuse own ownd neg iw v w r w', Inv own ownd [] w ->
  build_int refuse neg iw v w = Ret r w' -> fresh_item_post own ownd w r w'.
Proof. exact build_int_preserves. Qed.
Theorem C06_build_float : forall refuse own ownd fw b w r w', Inv own ownd [] w ->
  build_float refuse fw b w = Ret r w' -> fresh_item_post own ownd w r w'.
Proof. exact build_float_preserves. Qed.
Theorem C06_build_ctrl : forall refuse own ownd v w r w', Inv own ownd [] w ->
  build_ctrl refuse v w = Ret r w' -> fresh_item_post own ownd w r w'.
Proof. exact build_ctrl_preserves. Qed.
Print Assumptions C06_build_ctrl.
(* container growth under refusal (push / map add / add chunk): false and same_heap — see the
   refused branches of C12_push_indefinite, C12_map_add_indefinite, C12_add_chunk_spec. *)
Theorem C06_push_refused :
  forall (refuse : N -> N -> bool) (a x : addr) (w : world) (rc : N) (data : option addr) (allocated : N)
         (elems : list addr) (rcx : N) (nx : node) c bytes,
  wf w -> heap w a = Some (CItem rc (NArr true data allocated elems)) -> block_inv w data allocated ->
  heap w x = Some (CItem rcx nx) -> a <> x -> (allocated < 2 ^ 64)%N -> (allocated <= len elems)%N ->
  grow_req SZ_PTR allocated = Some (c, bytes) -> refuse (nreq w) bytes = true ->
  exists w', array_push refuse a x w = Ret false w' /\ same_heap w w' /\ no_new_write w w'.
Proof. exact push_refused_atomic. Qed.
Print Assumptions C06_push_refused.

(* cbor_copy under an arbitrary refusal schedule: NULL and the heap cell-for-cell as before *)
Theorem C06_copy_clean_failure :
  forall (refuse : N -> N -> bool) (fuel : nat) 
           (a : addr) (w : world) (own ownd : addr -> N) 
           (w' : world),
         Inv own ownd [] w ->
         shaped fuel (heap w) a ->
         copy refuse fuel a w = Ret None w' ->
         (forall b : addr, heap w' b = heap w b) /\ Inv own ownd [] w'.
Proof. exact C06_copy_clean_failure. Qed.
Print Assumptions C06_copy_clean_failure.

(* cbor_load under an arbitrary refusal schedule (and on any malformed input): NULL, an error code, every pre-existing cell untouched, nothing left allocated *)
Theorem C06_load_h_clean_failure :
  forall (refuse : N -> N -> bool) (L : N) (own ownd : addr -> N)
           (buf : list N) (w : world) (code : lerr) 
           (pos rd : N) (w' : world),
         bytes_ok buf ->
         (len buf < SIZE_MAX)%N ->
         HCont_proofs.wf w ->
         Inv own ownd [] w ->
         load_h refuse L buf w = Ret (None, code, pos, rd) w' ->
         code <> ENone /\
         (forall b : N, (b < next w)%N -> heap w' b = heap w b) /\
         (forall b : N, (next w <= b)%N -> heap w' b = None) /\
         Inv own ownd [] w' /\ (next w <= next w')%N.
Proof. exact load_h_clean_failure. Qed.
Print Assumptions C06_load_h_clean_failure.

(* ---- the third layer of client calls (HHist3.v) under allocation failure.  One-block constructors
   (cbor_new_int8..64, cbor_new_float2/4/8, cbor_new_ctrl, cbor_build_bool, cbor_new_null / cbor_new_undef):
   a NULL result means the one request was refused; the heap is then cell for cell what it was, the bump
   pointer has not moved (nothing was allocated, so nothing can have leaked), and the client's accounting
   invariant holds unchanged.  cbor_build_string: two requests, clean_failure as for cbor_build_stringn.
   The idioms f(.., cbor_move(x)) whose allocation (growth of the container, the tag) is refused: the failure
   value (false / NULL); every cell is what it was except the count of x, which cbor_move lowered by one
   BEFORE the call (documented behaviour of cbor_move: the callee did not take its reference); nothing
   allocated; and the accounting is exact when x has another reference.  For every allocator oracle. ---- *)
From CB Require Import HHist HHist_proofs HHist2 HHist3 HHist3_proofs.
Local Open Scope N_scope.

Theorem C06_new_int_refusal : forall refuse s own ownd w iw s' w',
  Inv own ownd [] w -> caps w -> new_int refuse s iw w = Ret (s', Out (OutHandle false)) w' ->
  refuse (nreq w) (SZ_ITEM + iw_bytes iw) = true /\ s' = mkcs3 (hpush (base s) None) (unset s) /\
  heap w' = heap w /\ next w' = next w /\ trace w' = EvMalloc (SZ_ITEM + iw_bytes iw) None :: trace w /\
  Inv own ownd [] w'.
Proof. exact new_int_refusal. Qed.
Print Assumptions C06_new_int_refusal.

Theorem C06_new_float_refusal : forall refuse s own ownd w fw s' w',
  Inv own ownd [] w -> caps w -> new_float refuse s fw w = Ret (s', Out (OutHandle false)) w' ->
  refuse (nreq w) (SZ_ITEM + fw_bytes fw) = true /\ s' = mkcs3 (hpush (base s) None) (unset s) /\
  heap w' = heap w /\ next w' = next w /\ trace w' = EvMalloc (SZ_ITEM + fw_bytes fw) None :: trace w /\
  Inv own ownd [] w'.
Proof. exact new_float_refusal. Qed.
Print Assumptions C06_new_float_refusal.

Theorem C06_new_ctrl_refusal : forall refuse s own ownd w s' w',
  Inv own ownd [] w -> caps w -> new_ctrl refuse s w = Ret (s', Out (OutHandle false)) w' ->
  refuse (nreq w) SZ_ITEM = true /\ s' = mkcs3 (hpush (base s) None) (unset s) /\
  heap w' = heap w /\ next w' = next w /\ Inv own ownd [] w'.
Proof. exact new_ctrl_refusal. Qed.
Print Assumptions C06_new_ctrl_refusal.

Theorem C06_build_bool_refusal : forall refuse s own ownd w b s' w',
  Inv own ownd [] w -> caps w -> build_bool refuse s b w = Ret (s', Out (OutHandle false)) w' ->
  refuse (nreq w) SZ_ITEM = true /\ s' = mkcs3 (hpush (base s) None) (unset s) /\
  heap w' = heap w /\ next w' = next w /\ Inv own ownd [] w'.
Proof. exact build_bool_refusal. Qed.
Print Assumptions C06_build_bool_refusal.

(* cbor_new_null (v = 22) / cbor_new_undef (v = 23) *)
Theorem C06_new_null_undef_refusal : forall refuse s own ownd w v s' w',
  Inv own ownd [] w -> caps w -> new_ctrl_set refuse s v w = Ret (s', Out (OutHandle false)) w' ->
  refuse (nreq w) SZ_ITEM = true /\ s' = mkcs3 (hpush (base s) None) (unset s) /\
  heap w' = heap w /\ next w' = next w /\ Inv own ownd [] w'.
Proof. exact new_ctrl_set_refusal. Qed.
Print Assumptions C06_new_null_undef_refusal.

Theorem C06_build_string0_refusal : forall refuse s bytes w s' w',
  HCont_proofs.wf w -> build_string0 refuse s bytes w = Ret (s', Out (OutHandle false)) w' ->
  s' = mkcs3 (hpush (base s) None) (unset s) /\ clean_failure refuse false SZ_ITEM w w'.
Proof. exact build_string0_refusal. Qed.
Print Assumptions C06_build_string0_refusal.

(* cbor_array_push(a, cbor_move(x)), growth of the indefinite array refused *)
Theorem C06_push_move_refused : forall refuse s own ownd w a x p q rc d c l rcq nq c' bytes,
  Inv own ownd [] w -> caps w ->
  hget (base s) a = Some p -> hget (base s) x = Some q -> is_set s x = true -> 0 < own q -> p <> q ->
  heap w p = Some (CItem rc (NArr true d c l)) -> heap w q = Some (CItem rcq nq) -> rcq < W64 ->
  c <= len l -> grow_req SZ_PTR c = Some (c', bytes) -> refuse (nreq w) bytes = true ->
  exists w', push_move refuse s a x w = Ret (s, Out (OutBool false)) w' /\
    (forall b, heap w' b = upd (heap w) q (Some (CItem (rcq - 1) nq)) b) /\ next w' = next w /\
    (1 < rcq -> Inv (own_dec own q) ownd [] w').
Proof. exact push_move_refused. Qed.
Print Assumptions C06_push_move_refused.

(* ... and whatever made the push fail (also a full definite array): the outcome form *)
Theorem C06_push_move_outcome : forall refuse s own ownd w a x p q rc indef d c l rcq nq,
  Inv own ownd [] w -> caps w ->
  hget (base s) a = Some p -> hget (base s) x = Some q -> is_set s x = true ->
  0 < own q -> p <> q ->
  heap w p = Some (CItem rc (NArr indef d c l)) -> heap w q = Some (CItem rcq nq) -> rcq < W64 ->
  exists ok w', push_move refuse s a x w = Ret (s, Out (OutBool ok)) w' /\
    (ok = true -> Inv (own_dec own q) ownd [] w') /\
    (ok = false ->
       (forall b, heap w' b = upd (heap w) q (Some (CItem (rcq - 1) nq)) b) /\ next w' = next w /\
       (1 < rcq -> Inv (own_dec own q) ownd [] w')).
Proof. exact push_move_step. Qed.
Print Assumptions C06_push_move_outcome.

(* cbor_map_add(m, {cbor_move(k), cbor_move(v)}), growth of the indefinite map refused (k and v may be the
   same item: then its count is two lower) *)
Theorem C06_map_add_move_refused : forall refuse s own ownd w m k v p q r rc d c l rcq nq rcr nr c' bytes,
  Inv own ownd [] w -> caps w ->
  hget (base s) m = Some p -> hget (base s) k = Some q -> hget (base s) v = Some r ->
  is_set s k = true -> is_set s v = true ->
  0 < own q -> 0 < own r -> (q = r -> 1 < own q) -> p <> q -> p <> r ->
  heap w p = Some (CItem rc (NMap true d c l)) ->
  heap w q = Some (CItem rcq nq) -> heap w r = Some (CItem rcr nr) -> rcq < W64 -> rcr < W64 ->
  c <= len l -> grow_req SZ_PAIR c = Some (c', bytes) -> refuse (nreq w) bytes = true ->
  exists w', map_add_move refuse s m k v w = Ret (s, Out (OutBool false)) w' /\
    next w' = next w /\ (forall b, b <> q -> b <> r -> heap w' b = heap w b) /\
    (1 < rcq -> 1 < rcr -> (q = r -> 2 < rcq) -> Inv (own_dec (own_dec own q) r) ownd [] w').
Proof. exact map_add_move_refused. Qed.
Print Assumptions C06_map_add_move_refused.

(* cbor_build_tag(v, cbor_move(x)), the tag's request refused *)
Theorem C06_build_tag_move_refused : forall refuse s own ownd w v x q rcq nq,
  Inv own ownd [] w -> hget (base s) x = Some q -> is_set s x = true ->
  0 < own q -> heap w q = Some (CItem rcq nq) -> rcq < W64 -> refuse (nreq w) SZ_ITEM = true ->
  exists w', build_tag_move refuse s v x w = Ret (mkcs3 (hpush (base s) None) (unset s), Out (OutHandle false)) w' /\
    (forall b, heap w' b = upd (heap w) q (Some (CItem (rcq - 1) nq)) b) /\ next w' = next w /\
    (1 < rcq -> Inv (own_dec own q) ownd [] w').
Proof. exact build_tag_move_refused. Qed.
Print Assumptions C06_build_tag_move_refused.

(* non-vacuity: with the third request refused, cbor_new_float8 returns NULL and the later calls are
   unaffected ([ex3_refused]); the growth of an indefinite array / map under the idiom is refused: false,
   the container untouched, the moved count one / two lower, nothing allocated *)
Example C06_layer3_nonvacuous :
  match run_hist3 (fun i _ => i =? 2) 8
          [O3Old ONewIndefArray; O3Old (OBuildInt false I8 7); O3Old (OIncref 1); O3PushMove 0 1]%nat s3_0 [] world0 with
  | Ret (s', outs) w' =>
      outs = [Out (OutHandle true); Out (OutHandle true); Out OutUnit; Out (OutBool false)] /\
      map (heap w') [1; 2; 3] = [Some (CItem 1 (NArr true None 0 [])); Some (CItem 1 (NInt false I8 7)); None] /\
      trace w' = [EvRealloc None 8 None; EvMalloc 49 (Some 2); EvMalloc 48 (Some 1)]
  | Fault _ => False
  end /\
  match run_hist3 (fun i _ => i =? 2) 8
          [O3Old (OBuildInt false I8 7); O3NewInt I16; O3NewFloat F64; O3NewCtrl; O3BuildTagMove 9 0]%nat s3_0 [] world0 with
  | Ret (s', outs) w' =>
      outs = [Out (OutHandle true); Out (OutHandle true); Out (OutHandle false); Out (OutHandle true); Out (OutHandle true)] /\
      heap w' 5 = None /\ live_count w' = 4
  | Fault _ => False
  end.
Proof. split; vm_compute; repeat split. Qed.
(* ---- atomicity of failure, uniformly over all 26 client operations (theories/HAtomic_proofs.v) ----
   failed o out: [out] is the documented failure value of operation [o]:
     NULL (OutHandle false)  for every call that creates or returns an item - the ten constructors,
                             build_tag, array_get (index out of range), tag_item, copy;
     false (OutBool false)   for push / set / replace / map_add / add_chunk;
     an error (OutLoadErr)   for load - any code: malformed, truncated, nesting limit, out of memory;
     0 bytes (OutBytes 0 _)  for serialize (buffer too small) and serialize_alloc (refused);
     0 (OutNum 0)            for serialized_size.
   table_grows_null s s': the client's handle table is unchanged or has gained one NULL slot.
   The failures covered are allocation failures at ANY request of the call (also in the middle of
   cbor_copy and cbor_load, after other blocks have been obtained) and the failures that have nothing
   to do with memory (definite container full, index out of range, size guard, malformed input,
   buffer too small).  No operation is excepted. *)
From CB Require Import HHist HHist_proofs HStepInv_proofs HAtomic_proofs.
From Coq Require Import List NArith.
Import ListNotations.
Local Open Scope N_scope.

Theorem C06_failure_values : forall o r, failed o r =
  match o, r with
  | (OBuildInt _ _ _ | OBuildFloat _ _ | OBuildCtrl _ | OBuildString _ _ | ONewIndefString _
     | ONewDefArray _ | ONewIndefArray | ONewDefMap _ | ONewIndefMap | ONewTag _
     | OBuildTag _ _ | OGet _ _ | OTagItem _ | OCopy _), OutHandle false => true
  | (OPush _ _ | OSet _ _ _ | OReplace _ _ _ | OMapAdd _ _ _ | OAddChunk _ _), OutBool false => true
  | OLoad _, OutLoadErr _ _ => true
  | (OSerialize _ _ | OSerAlloc _), OutBytes N0 _ => true
  | OSerSize _, OutNum N0 => true
  | _, _ => false
  end.
Proof. intros. reflexivity. Qed.

(* for every allocator oracle, nesting limit, client state, world satisfying the accounting
   invariant, and legal call: if the call returns its failure value then (i) every live cell has the
   same contents - node, reference count, everything; (ii) nothing stays allocated; (iii) the handle
   table gains at most a NULL slot; (iv) the accounting invariant holds with the same ownership;
   (i) and (ii) together: the heap is cell for cell what it was *)
Theorem C06_step_atomic : forall refuse L s own ownd w o s' r w',
  Inv own ownd [] w -> legal s own w o ->
  step refuse L s o w = Ret (s', r) w' -> failed o r = true ->
  (forall b, heap w b <> None -> heap w' b = heap w b) /\
  (forall b, heap w' b <> None -> heap w b <> None) /\
  table_grows_null s s' /\
  Inv own ownd [] w' /\
  (forall b, heap w' b = heap w b) /\ next w <= next w'.
Proof. exact HAtomic_proofs.C06_step_atomic. Qed.
Print Assumptions C06_step_atomic.

(* with C04_step: a legal call never faults - it succeeds or fails atomically *)
Theorem C06_step_total_atomic : forall refuse L s own ownd w o,
  Inv own ownd [] w -> caps w -> legal s own w o ->
  exists s' r w', step refuse L s o w = Ret (s', r) w' /\
    (failed o r = true -> (forall b, heap w' b = heap w b) /\ table_grows_null s s' /\ Inv own ownd [] w').
Proof. exact HAtomic_proofs.C06_step_total_atomic. Qed.
Print Assumptions C06_step_total_atomic.

(* histories: at any point of any legal history from the empty world, a call that reports failure
   leaves the live heap exactly as it was *)
Theorem C06_history_atomic : forall refuse L pre o rest s outs w s' r w',
  legal_history refuse L (pre ++ o :: rest) s0 own0 world0 ->
  run_hist refuse L pre s0 [] world0 = Ret (s, outs) w ->
  step refuse L s o w = Ret (s', r) w' -> failed o r = true ->
  (forall b, heap w' b = heap w b) /\ live_count w' = live_count w /\ table_grows_null s s' /\
  Inv (own_hist refuse L pre s0 own0 world0) own0 [] w'.
Proof. exact HAtomic_proofs.C06_history_atomic. Qed.
Print Assumptions C06_history_atomic.

(* the failing returns of the container calls need no hypothesis at all (found by inversion of the
   code); cbor_map_add cannot fail once the key is stored *)
Theorem C06_container_failures : forall refuse,
  (forall a x w w', array_push refuse a x w = Ret false w' -> heap w' = heap w /\ next w' = next w) /\
  (forall a i x w w', array_set refuse a i x w = Ret false w' -> heap w' = heap w /\ next w' = next w) /\
  (forall a i x w w', array_replace a i x w = Ret false w' -> heap w' = heap w /\ next w' = next w) /\
  (forall a i w w', array_get a i w = Ret None w' -> heap w' = heap w /\ next w' = next w) /\
  (forall a k v w w', map_add refuse a k v w = Ret false w' -> heap w' = heap w /\ next w' = next w) /\
  (forall a v w b w', map_add_value a v w = Ret b w' -> b = true) /\
  (forall a x w w', add_chunk refuse a x w = Ret false w' -> heap w' = heap w /\ next w' = next w).
Proof.
  intros refuse. split; [apply array_push_false|]. split; [apply array_set_false|]. split; [apply array_replace_false|].
  split; [apply array_get_none|]. split; [apply map_add_false|]. split; [apply map_add_value_true|apply add_chunk_false].
Qed.
Print Assumptions C06_container_failures.

(* non-vacuity: one legal history (ex06_legal) with nine failing calls of nine kinds - definite array
   full, get out of range, copy refused mid-way, load of a truncated array after two items were
   built, serialize into too small a buffer, set beyond the end, replace out of range, load refused
   mid-way, size guard of a definite map after its item was obtained.  Per call: failure value?,
   addresses 0..16 live exactly as before?, live blocks afterwards. *)
Example C06_example_table :
  atomic_table ex06_refuse 8 ex06_ops s0 world0 =
    [(false, false, 2); (false, false, 3); (false, true, 3);
     (true, true, 3); (true, true, 3); (true, true, 3); (true, true, 3); (true, true, 3);
     (true, true, 3); (true, true, 3); (true, true, 3); (true, true, 3);
     (false, false, 4)].
Proof. vm_compute. reflexivity. Qed.
Example C06_example_applies : forall s outs w s' r w',
  run_hist ex06_refuse 8 (firstn 5 ex06_ops) s0 [] world0 = Ret (s, outs) w ->
  step ex06_refuse 8 s (OCopy 0) w = Ret (s', r) w' -> failed (OCopy 0) r = true ->
  (forall b, heap w' b = heap w b) /\ live_count w' = live_count w /\ table_grows_null s s'.
Proof. exact ex06_copy_atomic. Qed.


(* ------------------------------------------------------------------------------------------ *)
(* The order of the cleanup as the C source of this run has it (translator/effects.py,
   gen/Gen_effects_load.v, Bridge_effects_load.v, HPlansLoad_proofs.v): the failure paths of the string
   callbacks set creation_failed, leave the stack alone and free the payload block exactly once,
   after the failed constructor; the error path of cbor_load releases the item of the top stack record
   and THEN pops the record — and the heap model does the same, request for request. *)
From Coq Require Import ZArith String List.
From CB Require Import GenLeafTypes HPlans HPlansLoad HPlans_proofs HPlansLoad_proofs Bridge_effects_load.
From CBGen Require Import Gen_effects_load.
Import ListNotations.
Local Open Scope string_scope.
Local Open Scope list_scope.
Local Open Scope N_scope.

Theorem C06_code_string_cb_failure_followed :
  forall (refuse : N -> N -> bool) (text : bool) (d : list N) (stk : list srec) w sub dst ty c,
  wf w -> len stk < 2 ^ 64 -> sub < 2 ^ 64 -> len d < 2 ^ 64 -> (0 <= ty < 2 ^ 32)%Z -> (0 <= dst < 2 ^ 32)%Z ->
  let ok0 := malloc_ok refuse (nreq w) (len d) in
  let ok1 := malloc_ok refuse (nreq w + 1) SZ_ITEM in
  let p := (if text then Gcbor_builder_string_callback else Gcbor_builder_byte_string_callback)
             0%Z (Z.of_N (len stk)) (Z.of_N sub) dst ty (Z.of_N (len d)) ok0 ok1 c in
  let ress := [if ok0 then Some (next w) else None; if ok1 then Some (next w + 1) else None] in
  ok0 && ok1 = false ->
  fieldZ "creation_failed" p = 1%Z /\
  exists w',
    string_cb refuse text d stk w = Ret (cf_ctx stk) w' /\
    trace w' = rev (glue_trace ress ress (p_reqs p)) ++ trace w /\
    heap_eq w w'.
Proof. exact code_string_cb_failure_followed. Qed.
Print Assumptions C06_code_string_cb_failure_followed.

Theorem C06_code_unwind_followed :
  forall code cf dr pos rd st se cf' sz' se' n (rc top : addr) (sub : N) (rest : list srec),
  len ((rc, top, sub) :: rest) < 2 ^ 64 ->
  let stk := (rc, top, sub) :: rest in
  let p := Gcbor_load_loop1 code cf dr (Z.of_N pos) (Z.of_N rd) (Z.of_N (len stk)) st se cf' sz' se' n in
  p_ret p = RLoop 1 /\
  p_reqs p = [call_decref (PField (PField stackL "top") "item"); ReqCall "_cbor_stack_pop" [AP stackL]] /\
  unwind stk = (decref top ;;; stack_pop (rc, top, sub) ;;; unwind rest).
Proof. exact code_unwind_followed. Qed.
Print Assumptions C06_code_unwind_followed.

(* ---- the same over the third layer of client calls (HHist3.step3).  failed3: the failure values
   of its calls (and failed for the embedded calls of the first layer).  moved s o: the items whose
   reference the client hands over with cbor_move BEFORE the call in the idioms
   cbor_array_push(a, cbor_move(x)), cbor_map_add(m, {cbor_move(k), cbor_move(v)}),
   cbor_build_tag(v, cbor_move(x)).  A failing call leaves every cell as it was and nothing
   allocated - EXCEPT that the count of a moved item is one lower (two lower for cbor_map_add with
   the same item as key and value): a failing call does not give the moved reference back.
   This exception is real (C06_example_push_move). ---- *)
From CB Require Import HHist2 HHist3 HHist3_proofs.
Theorem C06_step3_atomic : forall refuse L s own ownd w o s' r w',
  Inv own ownd [] w -> legal3 s own w o ->
  step3 refuse L s o w = Ret (s', r) w' -> failed3 o r = true ->
  (forall b, ~ In b (moved s o) -> heap w' b = heap w b) /\
  (forall b, In b (moved s o) -> exists rc n, heap w b = Some (CItem rc n) /\ heap w' b = Some (CItem (rc - cnt b (moved s o)) n)) /\
  (forall b, heap w' b <> None -> heap w b <> None) /\
  next w <= next w' /\ table3_grows_null s s' /\
  (moved s o = [] -> Inv own ownd [] w').
Proof. exact HAtomic_proofs.C06_step3_atomic. Qed.
Print Assumptions C06_step3_atomic.

Example C06_example_push_move :
  let ops := [O3Old (ONewDefArray 0); O3Old (OBuildInt false I8 7); O3Old (OIncref 1)]%nat in
  match run_hist3 HRef_proofs.never 8 ops s3_0 [] world0 with
  | Ret (s, _) w =>
      match step3 HRef_proofs.never 8 s (O3PushMove 0 1) w with
      | Ret (s', r) w' =>
          r = Out (OutBool false) /\ failed3 (O3PushMove 0 1) r = true /\ moved s (O3PushMove 0 1) = [3] /\
          heap w 3 = Some (CItem 2 (NInt false I8 7)) /\ heap w' 3 = Some (CItem 1 (NInt false I8 7)) /\
          heap w' 1 = heap w 1 /\ heap w' 2 = heap w 2 /\ live_count w' = live_count w
      | Fault _ => False
      end
  | Fault _ => False
  end.
Proof. exact ex06_push_move_not_restored. Qed.


(* ------------------------------------------------------------------------------------------ *)
(* The failure cleanup of cbor_copy as the C source of this run has it (gen/Gen_effects_copy.v,
   Bridge_effects_copy.v, HPlansCopy_proofs.v): when the copy of an element fails the container under
   construction is released; when the push is refused the element copy is released and then the container;
   when the value copy of a pair fails the container and the KEY copy are released — and the heap model's
   [copy] performs exactly these releases, in this order. *)
From CB Require Import HPlansSer HPlansCopy HPlansCopy_proofs Bridge_effects_copy.
From CBGen Require Import Gen_effects_copy.

Theorem C06_code_copy_array_round_followed :
  forall refuse cp al cc ctrl dst len_ ty v wd g8 g16 g32 g64 ok2
    (rs : addr) (data : option addr) (e : addr) (rest : list addr) size k w wa wb w1 e1 e2,
  k < size -> size < 2 ^ 64 -> cc < 2 ^ 64 -> k <= cc ->
  touch_data false data w = Ret tt wa -> incref e wa = Ret e1 wb -> move e wb = Ret e2 w1 ->
  let G ok1 c := Gcbor_copy_loop2 al (Z.of_N cc) ctrl dst (Z.of_N size) len_ ty v wd g16 g32 g64 g8 (Z.of_N k) true ok1 ok2 c in
  (forall w2 c, cp e w1 = Ret None w2 ->
     returns_null (G false c) = true /\
     p_reqs (G false c) = [ReqCall "cbor_array_get" [AP src; AZ (Z.of_N k)]; copy_of (PNew 0); drop the_copy] /\
     arr_loop refuse cp rs data (e :: rest) w = run_drops (round_val rs (Some e) None) (p_reqs (G false c)) (ret None) w2) /\
  (forall ec w2 w3, cp e w1 = Ret (Some ec) w2 -> array_push refuse rs ec w2 = Ret false w3 ->
     returns_null (G true 0%Z) = true /\
     p_reqs (G true 0%Z) = [ReqCall "cbor_array_get" [AP src; AZ (Z.of_N k)]; copy_of (PNew 0);
                            ReqCall "cbor_array_push" [AP the_copy; AP (PNew 1)]; drop (PNew 1); drop the_copy] /\
     arr_loop refuse cp rs data (e :: rest) w = run_drops (round_val rs (Some e) (Some ec)) (p_reqs (G true 0%Z)) (ret None) w3) /\
  (forall ec w2 w3 c, cp e w1 = Ret (Some ec) w2 -> array_push refuse rs ec w2 = Ret true w3 -> (c <> 0)%Z ->
     goes_on 2 (G true c) = true /\
     p_reqs (G true c) = [ReqCall "cbor_array_get" [AP src; AZ (Z.of_N k)]; copy_of (PNew 0);
                          ReqCall "cbor_array_push" [AP the_copy; AP (PNew 1)]; drop (PNew 1)] /\
     arr_loop refuse cp rs data (e :: rest) w =
     run_drops (round_val rs (Some e) (Some ec)) (p_reqs (G true c)) (arr_loop refuse cp rs data rest) w3).
Proof. exact code_copy_array_round_followed. Qed.
Print Assumptions C06_code_copy_array_round_followed.

Theorem C06_code_copy_map_value_failure_followed :
  forall refuse cp al cc ctrl dst len_ ty v wd g8 g16 g32 g64 ok2 c
    (rs : addr) (data : option addr) key vl (rest : list (addr * option addr)) size k w wa kc w2 w3,
  k < size -> size < 2 ^ 64 -> cc < 2 ^ 64 -> k <= cc ->
  touch_data false data w = Ret tt wa -> cp key wa = Ret (Some kc) w2 -> cp vl w2 = Ret None w3 ->
  let p := Gcbor_copy_loop3 al (Z.of_N cc) ctrl dst (Z.of_N size) len_ ty v wd g16 g32 g64 g8 (Z.of_N k) true false ok2 c in
  returns_null p = true /\
  p_reqs p = [copy_of (PSlot slots0 (Z.of_N k) "key"); copy_of (PSlot slots0 (Z.of_N k) "value"); drop the_copy; drop (PNew 0)] /\
  map_loop refuse cp rs data ((key, Some vl) :: rest) w = run_drops (round_val rs (Some kc) None) (p_reqs p) (ret None) w3.
Proof. exact code_copy_map_value_failure_followed. Qed.
Print Assumptions C06_code_copy_map_value_failure_followed.
