(* C04 — reference counting frees everything exactly once for rule-following clients.
   Statements only; proofs in theories/HRef_proofs.v (Inv, Seg, freed, acyclic are defined there).
   Inv own ownd ts w: every live item's count = the client's own references + references from live
   containers + pending releases; every data block has exactly one owner; nothing dead is
   referenced.  [own] is the client's reference count per item: the documented ownership rules. *)
From CB Require Import Word HHeap HItems HOps HHist HRef_proofs HCont_proofs HHist_proofs HHist2 HHist2_proofs.
Local Open Scope N_scope.

(* releasing a reference the client owns never touches released memory, never releases twice, never
   trips the refcount assertion, terminates within the model's fuel, and re-establishes the
   invariant with the client's count decremented *)
Theorem C04_decref : forall own own' ownd a w,
  (forall x, own' x = own x + (if x =? a then 1 else 0)) -> Inv own' ownd [] w ->
  exists w', decref a w = Ret tt w' /\ Inv own ownd [] w' /\ exists evs, Seg w evs w'.
Proof. exact decref_ok. Qed.
Print Assumptions C04_decref.

(* the item and everything only it kept alive are released exactly once, and only while live *)
Theorem C04_released_exactly_once : forall own own' ownd a w,
  (forall x, own' x = own x + (if x =? a then 1 else 0)) -> Inv own' ownd [] w ->
  exists w' evs, decref a w = Ret tt w' /\ Inv own ownd [] w' /\
    trace w' = evs ++ trace w /\ Forall is_free evs /\
    (forall p, In (EvFree (Some p)) evs -> heap w p <> None) /\ NoDup (freed evs) /\
    (forall x, heap w' x <> None <-> heap w x <> None /\ ~ In (EvFree (Some x)) evs).
Proof. exact decref_released_exactly_once. Qed.
Print Assumptions C04_released_exactly_once.

(* the release machine itself, from any intermediate state satisfying the invariant *)
Theorem C04_drain_never_faults : forall own ownd ts w, Inv own ownd ts w ->
  forall fuel k, drain fuel ts w = Fault k -> k = FFuel.
Proof. exact drain_no_fault. Qed.
Theorem C04_fuel_enough : forall a w, mu [TDecref a] w <= N.of_nat (drain_fuel w).
Proof. exact decref_fuel_enough. Qed.
Print Assumptions C04_drain_never_faults.

(* once the client has dropped all of its references, no memory obtained through the allocator
   remains (containers acyclic: a cycle keeps itself alive) *)
Theorem C04_no_leak : forall own ownd w, Inv own ownd [] w ->
  (forall a, own a = 0) -> (forall a, ownd a = 0) -> acyclic w -> forall a, heap w a = None.
Proof. exact no_leak. Qed.
Print Assumptions C04_no_leak.

(* the invariant is established by the constructors and kept by taking a reference *)
Theorem C04_empty_world : Inv (fun _ => 0) (fun _ => 0) [] world0.
Proof. exact Inv_world0. Qed.
Theorem C04_incref : forall own ownd a w rc n, Inv own ownd [] w -> heap w a = Some (CItem rc n) -> rc + 1 < W64 ->
  exists w', incref a w = Ret a w' /\ heap w' = upd (heap w) a (Some (CItem (rc+1) n)) /\ next w' = next w /\
    trace w' = trace w /\ Inv (fun x => own x + (if x =? a then 1 else 0)) ownd [] w'.
Proof. exact incref_preserves. Qed.
Theorem C04_build_int : forall refuse own ownd neg iw v w r w', Inv own ownd [] w ->
  build_int refuse neg iw v w = Ret r w' -> fresh_item_post own ownd w r w'.
Proof. exact build_int_preserves. Qed.
Print Assumptions C04_build_int.

(* ---- every finite history over the public API (HHist.op: new/build of every type, push / get /
   set / replace, map add, add chunk, tag set / get / build, copy, load, serialize, incref, decref)
   that follows the documented ownership rules ([legal], defined in HHist_proofs.v: the client uses
   an item only through a reference it owns, releases each reference once, keeps containers acyclic,
   sets a tag's item once) runs without ever touching released memory, double-releasing or tripping an
   assertion, and every item's count stays equal to the number of references the rules say exist —
   for every allocator oracle and every nesting limit ---- *)
Theorem C04_step : forall refuse L s own ownd w o, Inv own ownd [] w -> HCont_proofs.wf w -> caps w -> legal s own w o ->
  exists s' out0 w', step refuse L s o w = Ret (s', out0) w' /\
    Inv (own_after s o own s') ownd [] w' /\ HCont_proofs.wf w' /\ caps w'.
Proof. exact HHist_proofs.C04_step. Qed.
Print Assumptions C04_step.

Theorem C04_history : forall refuse L ops, legal_history refuse L ops s0 own0 world0 ->
  exists s' outs w', run_hist refuse L ops s0 [] world0 = Ret (s', outs) w' /\
    Inv (own_hist refuse L ops s0 own0 world0) own0 [] w'.
Proof. exact HHist_proofs.C04_history. Qed.
Print Assumptions C04_history.

Theorem C04_history_never_faults : forall refuse L ops k, legal_history refuse L ops s0 own0 world0 ->
  run_hist refuse L ops s0 [] world0 <> Fault k.
Proof. exact C04_history_no_fault. Qed.

(* once the client has dropped all of its references, no memory obtained through the allocator
   remains (acyclicity is itself preserved by rule-following histories: rules_history) *)
Theorem C04_history_no_leak : forall refuse L ops s' outs w', rules_history refuse L ops s0 own0 world0 ->
  run_hist refuse L ops s0 [] world0 = Ret (s', outs) w' ->
  (forall a, own_hist refuse L ops s0 own0 world0 a = 0) -> forall a, heap w' a = None.
Proof. exact C04_history_no_leak_acyclic. Qed.
Print Assumptions C04_history_no_leak.

(* the three client calls outside the [op] type (HHist2.v): cbor_new_definite_string/bytestring,
   cbor_string/bytestring_set_handle with a fresh malloc'd buffer, and with the buffer already held
   (shortening).  Each preserves the same accounting invariants under its legality rule, for every
   allocator oracle; and a string built by new + set_handle and released gives back the heap. *)
Theorem C04_step_strings : forall refuse s own ownd w o,
  Inv own ownd [] w -> HCont_proofs.wf w -> caps w -> legal2 s own w o ->
  exists s' out w', step2 refuse s o w = Ret (s', out) w' /\
    Inv (own_after2 o own s') ownd [] w' /\ HCont_proofs.wf w' /\ caps w'.
Proof. exact C04_step2. Qed.
Print Assumptions C04_step_strings.

Theorem C04_string_lifecycle : forall refuse s own ownd w text bytes,
  Inv own ownd [] w -> caps w ->
  refuse (nreq w) SZ_ITEM = false -> refuse (nreq w + 1) (len bytes) = false ->
  let a := next w in let d := next w + 1 in let h := length (handles s) in
  exists s1 w1 w2 w3,
    new_definite_string_op refuse s text w = Ret (s1, OutHandle true) w1 /\
    hget s1 h = Some a /\
    set_handle_new refuse s1 h bytes w1 = Ret (s1, OutBool true) w2 /\
    decref a w2 = Ret tt w3 /\
    trace w3 = [EvFree (Some a); EvFree (Some d); EvMalloc (len bytes) (Some d); EvMalloc SZ_ITEM (Some a)] ++ trace w /\
    (forall b, heap w3 b = heap w b) /\ next w3 = next w + 2 /\
    Inv own ownd [] w3 /\ HCont_proofs.wf w3 /\ caps w3.
Proof. exact string_lifecycle. Qed.
Print Assumptions C04_string_lifecycle.
