(* C04 — reference counting frees everything exactly once for rule-following clients.
   Statements only; proofs in theories/HRef_proofs.v (Inv, Seg, freed, acyclic are defined there).
   Inv own ownd ts w: every live item's count = the client's own references + references from live
   containers + pending releases; every data block has exactly one owner; nothing dead is
   referenced.  [own] is the client's reference count per item: the documented ownership rules. *)
From CB Require Import Word HHeap HItems HOps HHist HRef_proofs HCont_proofs HHist_proofs HHist2 HHist2_proofs HHist3 HHist3_proofs.
From CB Require Import HCopy_proofs.
Local Open Scope N_scope.

(* releasing a reference the client owns never touches released memory, never releases twice, never
   trips the refcount assertion, terminates within the model's fuel, and re-establishes the
   invariant with the client's count decremented *)
Theorem C04_decref : forall own own' ownd a w,
  (forall x, own' x = own x + (if x =? a then 1 else 0)) -> Inv own' ownd [] w ->
  exists w', decref a w = Ret tt w' /\ Inv own ownd [] w' /\ exists evs, Seg w evs w'.
Proof. exact decref_ok. Qed.
Print Assumptions C04_decref.

(* the item and everything only it kept alive are released exactly once, and only while live *)
Theorem C04_released_exactly_once : forall own own' ownd a w,
  (forall x, own' x = own x + (if x =? a then 1 else 0)) -> Inv own' ownd [] w ->
  exists w' evs, decref a w = Ret tt w' /\ Inv own ownd [] w' /\
    trace w' = evs ++ trace w /\ Forall is_free evs /\
    (forall p, In (EvFree (Some p)) evs -> heap w p <> None) /\ NoDup (freed evs) /\
    (forall x, heap w' x <> None <-> heap w x <> None /\ ~ In (EvFree (Some x)) evs).
Proof. exact decref_released_exactly_once. Qed.
Print Assumptions C04_released_exactly_once.

(* the release machine itself, from any intermediate state satisfying the invariant *)
Theorem C04_drain_never_faults : forall own ownd ts w, Inv own ownd ts w ->
  forall fuel k, drain fuel ts w = Fault k -> k = FFuel.
Proof. exact drain_no_fault. Qed.
Theorem C04_fuel_enough : forall a w, mu [TDecref a] w <= N.of_nat (drain_fuel w).
Proof. exact decref_fuel_enough. Qed.
Print Assumptions C04_drain_never_faults.

(* once the client has dropped all of its references, no memory obtained through the allocator
   remains (containers acyclic: a cycle keeps itself alive) *)
Theorem C04_no_leak : forall own ownd w, Inv own ownd [] w ->
  (forall a, own a = 0) -> (forall a, ownd a = 0) -> acyclic w -> forall a, heap w a = None.
Proof. exact no_leak. Qed.
Print Assumptions C04_no_leak.

(* the invariant is established by the constructors and kept by taking a reference *)
Theorem C04_empty_world : Inv (fun _ => 0) (fun _ => 0) [] world0.
Proof. exact Inv_world0. Qed.
Theorem C04_incref : forall own ownd a w rc n, Inv own ownd [] w -> heap w a = Some (CItem rc n) -> rc + 1 < W64 ->
  exists w', incref a w = Ret a w' /\ heap w' = upd (heap w) a (Some (CItem (rc+1) n)) /\ next w' = next w /\
    trace w' = trace w /\ Inv (fun x => own x + (if x =? a then 1 else 0)) ownd [] w'.
Proof. exact incref_preserves. Qed.
Theorem C04_build_int : forall refuse own ownd neg iw v w r w', Inv own ownd [] w ->
  build_int refuse neg iw v w = Ret r w' -> fresh_item_post own ownd w r w'.
Proof. exact build_int_preserves. Qed.
Print Assumptions C04_build_int.

(* ---- every finite history over the public API (HHist.op: new/build of every type, push / get /
   set / replace, map add, add chunk, tag set / get / build, copy, load, serialize, incref, decref)
   that follows the documented ownership rules ([legal], defined in HHist_proofs.v: the client uses
   an item only through a reference it owns, releases each reference once, keeps containers acyclic,
   sets a tag's item once) runs without ever touching released memory, double-releasing or tripping an
   assertion, and every item's count stays equal to the number of references the rules say exist —
   for every allocator oracle and every nesting limit ---- *)
Theorem C04_step : forall refuse L s own ownd w o, Inv own ownd [] w -> HCont_proofs.wf w -> caps w -> legal s own w o ->
  exists s' out0 w', step refuse L s o w = Ret (s', out0) w' /\
    Inv (own_after s o own s') ownd [] w' /\ HCont_proofs.wf w' /\ caps w'.
Proof. exact HHist_proofs.C04_step. Qed.
Print Assumptions C04_step.

Theorem C04_history : forall refuse L ops, legal_history refuse L ops s0 own0 world0 ->
  exists s' outs w', run_hist refuse L ops s0 [] world0 = Ret (s', outs) w' /\
    Inv (own_hist refuse L ops s0 own0 world0) own0 [] w'.
Proof. exact HHist_proofs.C04_history. Qed.
Print Assumptions C04_history.

Theorem C04_history_never_faults : forall refuse L ops k, legal_history refuse L ops s0 own0 world0 ->
  run_hist refuse L ops s0 [] world0 <> Fault k.
Proof. exact C04_history_no_fault. Qed.

(* once the client has dropped all of its references, no memory obtained through the allocator
   remains (acyclicity is itself preserved by rule-following histories: rules_history) *)
Theorem C04_history_no_leak : forall refuse L ops s' outs w', rules_history refuse L ops s0 own0 world0 ->
  run_hist refuse L ops s0 [] world0 = Ret (s', outs) w' ->
  (forall a, own_hist refuse L ops s0 own0 world0 a = 0) -> forall a, heap w' a = None.
Proof. exact C04_history_no_leak_acyclic. Qed.
Print Assumptions C04_history_no_leak.

(* the three client calls outside the [op] type (HHist2.v): cbor_new_definite_string/bytestring,
   cbor_string/bytestring_set_handle with a fresh malloc'd buffer, and with the buffer already held
   (shortening).  Each preserves the same accounting invariants under its legality rule, for every
   allocator oracle; and a string built by new + set_handle and released gives back the heap. *)
Theorem C04_step_strings : forall refuse s own ownd w o,
  Inv own ownd [] w -> HCont_proofs.wf w -> caps w -> legal2 s own w o ->
  exists s' out w', step2 refuse s o w = Ret (s', out) w' /\
    Inv (own_after2 o own s') ownd [] w' /\ HCont_proofs.wf w' /\ caps w'.
Proof. exact C04_step2. Qed.
Print Assumptions C04_step_strings.

Theorem C04_string_lifecycle : forall refuse s own ownd w text bytes,
  Inv own ownd [] w -> caps w ->
  refuse (nreq w) SZ_ITEM = false -> refuse (nreq w + 1) (len bytes) = false ->
  let a := next w in let d := next w + 1 in let h := length (handles s) in
  exists s1 w1 w2 w3,
    new_definite_string_op refuse s text w = Ret (s1, OutHandle true) w1 /\
    hget s1 h = Some a /\
    set_handle_new refuse s1 h bytes w1 = Ret (s1, OutBool true) w2 /\
    decref a w2 = Ret tt w3 /\
    trace w3 = [EvFree (Some a); EvFree (Some d); EvMalloc (len bytes) (Some d); EvMalloc SZ_ITEM (Some a)] ++ trace w /\
    (forall b, heap w3 b = heap w b) /\ next w3 = next w + 2 /\
    Inv own ownd [] w3 /\ HCont_proofs.wf w3 /\ caps w3.
Proof. exact string_lifecycle. Qed.
Print Assumptions C04_string_lifecycle.

(* ------------------------------------------------------------------------------------------ *)
(* The reference-count calls the C source of this run makes (gen/Gen_effects.v, translator/effects.py,
   Bridge_effects.v): cbor_incref adds one and cbor_move subtracts one with 64-bit wrap-around, both
   return their argument; the container functions take exactly one reference on the element they
   store (none when they refuse), cbor_array_get / cbor_tag_item one on the element they hand out,
   cbor_array_replace releases the old element once; and H's operations do the same
   (HPlans_proofs.v). *)
From Coq Require Import ZArith String List.
From CB Require Import GenLeafTypes HPlans HPlans_proofs Bridge_effects.
From CBGen Require Import Gen_effects.
Import ListNotations.
Local Open Scope string_scope.
Local Open Scope list_scope.
Local Open Scope N_scope.

Theorem C04_code_refcount_plans : forall rc, rc < 2^64 ->
  Gcbor_incref (Z.of_N rc) = incref_plan rc /\ Gcbor_move (Z.of_N rc) = move_plan rc /\
  Gcbor_tag_set_item = tag_set_item_plan /\ Gcbor_tag_item = tag_item_plan.
Proof.
  intros rc H. split; [exact (bridge_plan_incref rc H)|]. split; [exact (bridge_plan_move rc H)|].
  split; [exact bridge_plan_tag_set_item | exact bridge_plan_tag_item].
Qed.
Print Assumptions C04_code_refcount_plans.

Theorem C04_code_container_incref_plans : forall definite e al ok i dst, e < 2^64 -> al < 2^64 -> i < 2^64 ->
  Gcbor_array_push (Z.of_N al) (dst_z definite) (Z.of_N e) ok = array_push_plan definite e al ok /\
  Gcbor_array_get (Z.of_N al) dst (Z.of_N e) (Z.of_N i) = array_get_plan al dst e i /\
  Gcbor_array_replace (Z.of_N al) dst (Z.of_N e) (Z.of_N i) = array_replace_plan al dst e i /\
  G_cbor_map_add_value (Z.of_N al) dst (Z.of_N e) = map_add_value_plan al dst e.
Proof.
  intros definite e al ok i dst He Ha Hi.
  split; [exact (bridge_plan_array_push definite e al ok He Ha)|].
  split; [exact (bridge_plan_array_get al dst e i He Hi)|].
  split; [exact (bridge_plan_array_replace al dst e i He Hi) | exact (bridge_plan_map_add_value al dst e He)].
Qed.
Print Assumptions C04_code_container_incref_plans.

Theorem C04_incref_follows_plan : forall a w rc n,
  heap w a = Some (CItem rc n) ->
  let p := incref_plan rc in
  exists w', incref a w = Ret a w' /\ p_ret p = RP (PArg 0) /\
    heap w' a = Some (CItem (fieldN "refcount" p) n) /\ trace w' = trace w.
Proof. exact incref_follows_plan. Qed.
Theorem C04_move_follows_plan : forall a w rc n,
  heap w a = Some (CItem rc n) ->
  let p := move_plan rc in
  exists w', move a w = Ret a w' /\ p_ret p = RP (PArg 0) /\
    heap w' a = Some (CItem (fieldN "refcount" p) n) /\ trace w' = trace w.
Proof. exact move_follows_plan. Qed.
Theorem C04_tag_set_item_follows_plan : forall t x w rc v old rcx nx,
  heap w t = Some (CItem rc (NTag v old)) ->
  heap w x = Some (CItem rcx nx) ->
  t <> x ->
  let p := tag_set_item_plan in
  p_effs p = [Incref (PArg 1); SetPtr (PArg 0) "metadata.tagged_item" (PArg 1)] /\
  exists w',
    tag_set_item t x w = Ret tt w' /\
    heap w' t = Some (CItem rc (NTag v (Some x))) /\
    heap w' x = Some (CItem (bump (increfs_arg 1 p) rcx) nx) /\
    trace w' = trace w.
Proof. exact tag_set_item_follows_plan. Qed.
Theorem C04_array_replace_follows_plan : forall a i v w rc indef d sz allocated elems dst,
  heap w a = Some (CItem rc (NArr indef (Some d) allocated elems)) ->
  heap w d = Some (CData sz) ->
  let p := array_replace_plan allocated dst (len elems) i in
  (ret_bool p = false ->
     p_effs p = [] /\ array_replace a i v w = Ret false (HCont_proofs.w_log (AccR a) w)) /\
  (ret_bool p = true ->
     p_effs p = [Incref (PArg 2); Decref (PSlot (PField (PArg 0) "data") (Z.of_N i) "");
                 Store (PField (PArg 0) "data") (Z.of_N i) "" (PArg 2)] /\
     forall old rco no rcv nv,
       nth_error elems (N.to_nat i) = Some old ->
       heap w old = Some (CItem rco no) -> 1 < rco ->
       heap w v = Some (CItem rcv nv) ->
       a <> old -> a <> v -> old <> v ->
       exists w',
         array_replace a i v w = Ret true w' /\
         heap w' a = Some (CItem rc (NArr indef (Some d) (fieldN "allocated" p)
                                       (set_nth elems (N.to_nat i) v))) /\
         len (set_nth elems (N.to_nat i) v) = fieldN "end_ptr" p /\
         heap w' old = Some (CItem (rco - len (filter is_decref (p_effs p))) no) /\
         heap w' v = Some (CItem (bump (increfs_arg 2 p) rcv) nv) /\
         trace w' = trace w).
Proof. exact array_replace_follows_plan. Qed.
Print Assumptions C04_incref_follows_plan.
Print Assumptions C04_move_follows_plan.
Print Assumptions C04_tag_set_item_follows_plan.
Print Assumptions C04_array_replace_follows_plan.
(* ---- the third layer of client calls (HHist3.v): cbor_new_int8..64 (value not initialised) /
   cbor_set_uint8..64 / cbor_mark_uint / cbor_mark_negint, cbor_new_float2/4/8 / cbor_set_float2/4/8,
   cbor_new_ctrl / cbor_set_ctrl / cbor_set_bool / cbor_build_bool / cbor_new_null / cbor_new_undef,
   cbor_move alone and in the idioms f(.., cbor_move(x)) for cbor_array_push / cbor_map_add /
   cbor_tag_set_item / cbor_build_tag, cbor_intermediate_decref, cbor_build_string, the eight type-specific
   serializers, the predicates and the value getters -- together with every call of the two earlier layers
   ([HHist3.op3] embeds them).  Under the rules [legal3] (HHist3_proofs.v: the client holds a reference to
   every operand; the CBOR_ASSERT type / width preconditions hold; no value is read -- by a getter, a
   serializer, cbor_copy, or after insertion into a container -- before it has been stored; cbor_move only
   on an item that has another reference, except in cbor_tag_set_item(t, cbor_move(x)), which cannot fail)
   a call returns, never faults, and re-establishes the accounting invariant with the client's
   ownership updated by [own_after3]: for every allocator oracle and every nesting limit ---- *)
Theorem C04_step3 : forall refuse L s own ownd w o,
  Inv own ownd [] w -> HCont_proofs.wf w -> caps w -> legal3 s own w o ->
  exists s' out w', step3 refuse L s o w = Ret (s', out) w' /\
    Inv (own_after3 s o own s') ownd [] w' /\ HCont_proofs.wf w' /\ caps w'.
Proof. exact HHist3_proofs.C04_step3. Qed.
Print Assumptions C04_step3.

Theorem C04_history3 : forall refuse L ops, legal_history3 refuse L ops s3_0 own0 world0 ->
  exists s' outs w', run_hist3 refuse L ops s3_0 [] world0 = Ret (s', outs) w' /\
    Inv (own_hist3 refuse L ops s3_0 own0 world0) own0 [] w'.
Proof. exact HHist3_proofs.C04_history3. Qed.
Print Assumptions C04_history3.

(* cbor_new_int8..64: atomic under refusal (NULL, heap unchanged); granted: one fresh block of
   sizeof(cbor_item_t) + width bytes, count 1, owned by the client, its value recorded as not yet stored *)
Theorem C04_new_int : forall refuse s own ownd w iw,
  Inv own ownd [] w -> caps w ->
  exists s' ok w', new_int refuse s iw w = Ret (s', Out (OutHandle ok)) w' /\
    Inv (match new_handle3 s' with Some a => own1 own a | None => own end) ownd [] w' /\ HCont_proofs.wf w' /\ caps w' /\
    ((refuse (nreq w) (SZ_ITEM + iw_bytes iw) = true /\ ok = false /\ s' = mkcs3 (hpush (base s) None) (unset s) /\
      heap w' = heap w /\ next w' = next w /\ trace w' = EvMalloc (SZ_ITEM + iw_bytes iw) None :: trace w)
     \/
     (refuse (nreq w) (SZ_ITEM + iw_bytes iw) = false /\ ok = true /\
      s' = mkcs3 (hpush (base s) (Some (next w))) (next w :: unset s) /\ heap w (next w) = None /\
      heap w' = upd (heap w) (next w) (Some (CItem 1 (NInt false iw 0))) /\ next w' = next w + 1 /\
      trace w' = EvMalloc (SZ_ITEM + iw_bytes iw) (Some (next w)) :: trace w)).
Proof. exact new_int_step. Qed.
Print Assumptions C04_new_int.

(* cbor_array_push(a, cbor_move(x)) for ANY count of x (in particular the client's sole reference): if the
   push succeeds the array has taken over the client's reference; if it fails (full definite array, growth
   refused) nothing but the count of x has changed, which is one lower -- the accounting is still exact
   when x has another reference, and x is left with count 0 otherwise (the documented hazard of cbor_move) *)
Theorem C04_push_move : forall refuse s own ownd w a x p q rc indef d c l rcq nq,
  Inv own ownd [] w -> caps w ->
  hget (base s) a = Some p -> hget (base s) x = Some q -> is_set s x = true ->
  0 < own q -> p <> q ->
  heap w p = Some (CItem rc (NArr indef d c l)) -> heap w q = Some (CItem rcq nq) -> rcq < W64 ->
  exists ok w', push_move refuse s a x w = Ret (s, Out (OutBool ok)) w' /\
    (ok = true -> Inv (own_dec own q) ownd [] w') /\
    (ok = false ->
       (forall b, heap w' b = upd (heap w) q (Some (CItem (rcq - 1) nq)) b) /\ next w' = next w /\
       (1 < rcq -> Inv (own_dec own q) ownd [] w')).
Proof. exact push_move_step. Qed.
Print Assumptions C04_push_move.

(* non-vacuity: a concrete 14-call history over the new calls follows the rules, so the theorem applies to it;
   and a read before the first store is not a legal history (the model reports it as a fault) *)
(* every call of the three layers that follows the rules and the no-cycle rule [below_rule3] (for the
   idioms that insert an item: the client can exhibit a topological order of the containment graph in which
   the inserted item lies below the container -- as [below_rule] of the first layer) keeps the containment
   graph acyclic ... *)
Theorem C04_step3_acyclic : forall refuse L s own ownd w o,
  Inv own ownd [] w -> caps w -> legal3 s own w o -> acyclic w -> below_rule3 s w o ->
  exists r w', step3 refuse L s o w = Ret r w' /\ acyclic w'.
Proof. exact step3_acyclic. Qed.
Print Assumptions C04_step3_acyclic.

(* ... so that, with NOTHING assumed of the final heap: after a history over the calls of all three layers
   that follows the rules, once the client has given back all its references, no memory obtained through
   the allocator remains *)
Theorem C04_history3_no_leak : forall refuse L ops s' outs w',
  rules_history3 refuse L ops s3_0 own0 world0 ->
  run_hist3 refuse L ops s3_0 [] world0 = Ret (s', outs) w' ->
  (forall a, own_hist3 refuse L ops s3_0 own0 world0 a = 0) ->
  forall a, heap w' a = None.
Proof. exact C04_history3_no_leak_acyclic. Qed.
Print Assumptions C04_history3_no_leak.

(* non-vacuity of the no-cycle rule too: the 14-call history satisfies [rules_history3] *)
Example C04_rules_history3_nonvacuous : rules_history3 never 8 ex3_ops s3_0 own0 world0.
Proof. exact ex3_rules3. Qed.

Example C04_history3_nonvacuous :
  legal_history3 never 8 ex3_ops s3_0 own0 world0 /\
  (exists s' outs w', run_hist3 never 8 ex3_ops s3_0 [] world0 = Ret (s', outs) w' /\
     Inv (own_hist3 never 8 ex3_ops s3_0 own0 world0) own0 [] w') /\
  run_hist3 never 8 [O3NewInt I8; O3Vals 0]%nat s3_0 [] world0 = Fault FUninit.
Proof. split; [exact ex3_rules|]. split; [exact ex3_theorem_applies|]. vm_compute. reflexivity. Qed.

(* ------------------------------------------------------------------------------------------ *)
(* The release path as the C source of this run has it (translator/effects.py renders cbor_decref as
   five plans: entry and one round of each of its four loops; gen/Gen_effects_ref.v;
   Bridge_effects_ref.v; HPlansRef_proofs.v): the count goes down by one and the item is released iff
   it reaches 0; an array releases its elements in storage order, then frees the slot block, then the
   item — the task order of the model's [release_tasks]. *)
From CB Require Import HPlansRef HPlansRef_proofs Bridge_effects_ref.
From CBGen Require Import Gen_effects_ref.

Theorem C04_code_decref_test_followed : forall cc definite e rc ty k nn_child nn_elem nn_value,
  0 < rc < 2 ^ 64 -> (0 <= ty < 2 ^ 32)%Z ->
  let p := Gcbor_decref cc (dst_z definite) e (Z.of_N rc) ty k nn_child nn_elem nn_value in
  HPlans_proofs.fieldN "refcount" p = sub64 rc 1 /\ (releases p = (rc =? 1)).
Proof. exact code_decref_test_followed. Qed.
Print Assumptions C04_code_decref_test_followed.

Theorem C04_code_release_array_followed : forall a (indef : bool) data allocated (elems : list addr) cc dst rc ty nn_child nn_value,
  len elems < 2 ^ 64 -> cc < 2 ^ 64 -> len elems <= cc ->
  let tok := tokens a data None None (fun k _ => nth_error elems (Z.to_nat k)) in
  let tasks := release_tasks a (NArr indef data allocated elems) in
  let G k := Gcbor_decref_loop2 (Z.of_N cc) dst (Z.of_N (len elems)) rc ty (Z.of_N k) nn_child true nn_value in
  (forall k, k < len elems -> plan_tasks tok (G k) = [nth (N.to_nat k) tasks (TFreeItem a)]) /\
  plan_tasks tok (G (len elems)) = [TFreeData data; TFreeItem a] /\
  skipn (List.length elems) tasks = [TFreeData data; TFreeItem a].
Proof. exact code_release_array_followed. Qed.
Print Assumptions C04_code_release_array_followed.
