(* C13 — all heap traffic goes through the configured allocator, consistently.
   Statements only.  Model H has exactly one allocator (malloc / realloc / free primitives, one per
   call site of the code, each recording an event); "never handed to the C library directly" is a
   fact about the sources and the binary: the inventory regenerated from the AST of every source on
   this run (Bridge_inventory) and the trace equality under a tagging / arena allocator. *)
From CB Require Import Word HHeap HItems HOps HHist HRef_proofs HRead_proofs Bridge_inventory HHist_proofs HHist2_proofs HStepInv_proofs HTrace_proofs.
From Coq Require Import List.
Import ListNotations.
From CBGen Require Import Gen_inventory.
Local Open Scope N_scope.

(* the only direct references to libc allocation functions in src/ are the three initialisers of
   the allocator pointers in allocators.c *)
Theorem C13_no_direct_libc : forallb libc_ref_ok gen_libc_refs = true.
Proof. exact bridge_libc_refs. Qed.
Print Assumptions C13_no_direct_libc.

(* every block released by a decref was obtained from the allocator, is still live, and is handed
   to free exactly once *)
Theorem C13_release_protocol : forall own own' ownd a w,
  (forall x, own' x = own x + (if x =? a then 1 else 0)) -> Inv own' ownd [] w ->
  exists w' evs, decref a w = Ret tt w' /\ Inv own ownd [] w' /\
    trace w' = evs ++ trace w /\ Forall is_free evs /\
    (forall p, In (EvFree (Some p)) evs -> heap w p <> None) /\ NoDup (freed evs) /\
    (forall x, heap w' x <> None <-> heap w x <> None /\ ~ In (EvFree (Some x)) evs).
Proof. exact decref_released_exactly_once. Qed.
Print Assumptions C13_release_protocol.

(* fixed-buffer serialization and size computation request no memory at all *)
Theorem C13_serialize_no_requests : forall a n w r w', serialize_h a n w = Ret r w' -> trace w' = trace w /\ nreq w' = nreq w.
Proof. exact C13_no_requests. Qed.
Theorem C13_size_no_requests : forall a w r w', serialized_size_h a w = Ret r w' -> trace w' = trace w /\ nreq w' = nreq w.
Proof. exact C13_no_requests_size. Qed.
Print Assumptions C13_size_no_requests.
(* the streaming decoder and the low-level encoders are pure functions of their arguments in model P
   (PStream.stream_decode, PEnc.encode): they have no allocator to call; the request counter of the
   dec1 / enc streams checks the same of the compiled code. *)

(* cbor_describe walks the item exactly as the abstraction function does: it stores nothing,
   requests nothing from the allocator and frees nothing *)
Theorem C13_describe_readonly : forall fuel a w u w',
  describe_walk fuel a w = Ret u w' ->
  heap w' = heap w /\ next w' = next w /\ nreq w' = nreq w /\ trace w' = trace w /\
  (exists reads, alog w' = reads ++ alog w /\ Forall (fun x => exists b, x = AccR b) reads).
Proof. exact describe_walk_readonly. Qed.
Print Assumptions C13_describe_readonly.

(* ---- the allocator protocol over whole API histories (theories/HTrace_proofs.v) ----
   Vocabulary (HTrace_proofs): for an allocator event e,
     returned e = the address it hands out        (EvMalloc _ (Some p), EvRealloc _ _ (Some p)  ->  [p]),
     named e    = the block it takes as argument  (EvFree (Some p), EvRealloc (Some p) _ _      ->  [p]),
     released e = the block that dies with it     (EvFree (Some p); EvRealloc (Some p) _ (Some _): a granted
                                                   realloc kills the old address, a refused one does not);
     returned_in / released_in = the same over a list of events.
   [trace w] is newest first, so [rev (trace w)] is the run's allocator trace in program order.
   trace_ok evs: at every position of the trace, the block named by a free / realloc was returned by an
   EARLIER malloc / realloc and has not been given back since, and no address is returned twice. *)

(* for every allocator oracle, every nesting limit and every history that follows the ownership
   rules (exactly the hypothesis of C04_history): the run does not fault and its whole allocator
   trace obeys the protocol - each block is handed to free at most once, only while live, and
   nothing that did not come from the allocator is ever freed or resized *)
Theorem C13_history_trace_ok : forall refuse L ops,
  legal_history refuse L ops s0 own0 world0 ->
  exists s' outs w', run_hist refuse L ops s0 [] world0 = Ret (s', outs) w' /\
    forall before e after, rev (trace w') = before ++ e :: after ->
      (forall p, In p (named e) -> In p (returned_in before) /\ ~ In p (released_in before)) /\
      (forall p, In p (returned e) -> ~ In p (returned_in before)).
Proof. exact HTrace_proofs.C13_history_trace_ok. Qed.
Print Assumptions C13_history_trace_ok.

(* the same with the named predicate; trace_okb is an executable checker that decides it *)
Theorem C13_history_trace_ok' : forall refuse L ops,
  legal_history refuse L ops s0 own0 world0 ->
  exists s' outs w', run_hist refuse L ops s0 [] world0 = Ret (s', outs) w' /\ trace_ok (rev (trace w')).
Proof. exact HTrace_proofs.C13_history_trace_ok. Qed.
Theorem C13_checker_reflects : forall evs, trace_okb evs = true <-> trace_ok evs.
Proof. exact trace_okb_iff. Qed.
Print Assumptions C13_checker_reflects.

(* consequences in list form: no block is given back twice, no address is handed out twice, only
   blocks that came from the allocator are given back *)
Theorem C13_history_released_once : forall refuse L ops,
  legal_history refuse L ops s0 own0 world0 ->
  exists s' outs w', run_hist refuse L ops s0 [] world0 = Ret (s', outs) w' /\
    NoDup (released_in (rev (trace w'))) /\ NoDup (returned_in (rev (trace w'))) /\
    (forall p, In p (released_in (rev (trace w'))) -> In p (returned_in (rev (trace w')))).
Proof. exact HTrace_proofs.C13_history_released_once. Qed.
Print Assumptions C13_history_released_once.

(* the protocol does not depend on the rules: whatever the client does, if the run returns then its
   trace obeys the protocol and the live cells are exactly the blocks returned and not given back (a
   call that would free or resize a dead block is a Fault of the model, which stops the run before
   the event is recorded).  What the rules buy is the absence of faults (C04_history). *)
Theorem C13_any_run_trace_ok : forall refuse L ops s' outs w',
  run_hist refuse L ops s0 [] world0 = Ret (s', outs) w' ->
  trace_ok (rev (trace w')) /\
  (forall p, heap w' p <> None <-> In p (returned_in (rev (trace w'))) /\ ~ In p (released_in (rev (trace w')))).
Proof. exact HTrace_proofs.C13_any_run_trace_ok. Qed.
Print Assumptions C13_any_run_trace_ok.

(* once the client has dropped all of its references (hypotheses of C04_history_no_leak: ownership
   and no-cycle rules), every address the allocator returned during the run has been given back -
   freed, or consumed by a granted realloc - exactly once *)
Theorem C13_history_all_freed : forall refuse L ops s' outs w',
  rules_history refuse L ops s0 own0 world0 ->
  run_hist refuse L ops s0 [] world0 = Ret (s', outs) w' ->
  (forall a, own_hist refuse L ops s0 own0 world0 a = 0) ->
  trace_ok (rev (trace w')) /\
  forall p, In p (returned_in (rev (trace w'))) ->
    count_occ N.eq_dec (released_in (rev (trace w'))) p = 1%nat.
Proof. exact HTrace_proofs.C13_history_all_freed. Qed.
Print Assumptions C13_history_all_freed.

(* non-vacuity: an indefinite array that grows 0 -> 1 -> 2 (the block moves), a growth refused by
   the allocator, a string, a fourth growth, and the release of everything.  The history follows
   the rules (ex13_rules), so both theorems apply to it; evaluated: *)
Example C13_example_trace :
  match run_hist ex13_refuse 8 ex13_ops s0 [] world0 with
  | Ret (s', outs) w' =>
      rev (trace w') =
        [EvMalloc 48 (Some 1); EvMalloc 49 (Some 2); EvRealloc None 8 (Some 3); EvRealloc (Some 3) 16 (Some 4);
         EvRealloc (Some 4) 32 None; EvMalloc 48 (Some 5); EvMalloc 2 (Some 6); EvRealloc (Some 4) 32 (Some 7);
         EvFree (Some 2); EvFree (Some 6); EvFree (Some 5); EvFree (Some 7); EvFree (Some 1)] /\
      trace_okb (rev (trace w')) = true /\
      returned_in (rev (trace w')) = [1; 2; 3; 4; 5; 6; 7] /\
      released_in (rev (trace w')) = [3; 4; 2; 6; 5; 7; 1]
  | Fault _ => False
  end.
Proof. vm_compute. repeat split. Qed.
Example C13_example_applies :
  (exists s' outs w', run_hist ex13_refuse 8 ex13_ops s0 [] world0 = Ret (s', outs) w' /\ trace_ok (rev (trace w'))) /\
  (forall s' outs w', run_hist ex13_refuse 8 ex13_ops s0 [] world0 = Ret (s', outs) w' ->
     forall p, In p (returned_in (rev (trace w'))) -> count_occ N.eq_dec (released_in (rev (trace w'))) p = 1%nat).
Proof.
  split; [exact ex13_theorem_applies|]. intros s' outs w' E. exact (proj2 (ex13_all_freed s' outs w' E)).
Qed.

(* ---- the same over the third layer of client calls (HHist3: op3 / step3 / run_hist3 - the
   uninitialised-value constructors and setters, cbor_move and its idioms, intermediate_decref, the
   typed serializers, predicates and getters - which also embeds the calls of the two earlier layers) ---- *)
From CB Require Import HHist2 HHist3 HHist3_proofs.
Theorem C13_any_run3_trace_ok : forall refuse L ops s' outs w',
  run_hist3 refuse L ops s3_0 [] world0 = Ret (s', outs) w' ->
  trace_ok (rev (trace w')) /\
  (forall p, heap w' p <> None <-> In p (returned_in (rev (trace w'))) /\ ~ In p (released_in (rev (trace w')))).
Proof. exact HTrace_proofs.C13_any_run3_trace_ok. Qed.
Print Assumptions C13_any_run3_trace_ok.
Theorem C13_history3_trace_ok : forall refuse L ops,
  legal_history3 refuse L ops s3_0 own0 world0 ->
  exists s' outs w', run_hist3 refuse L ops s3_0 [] world0 = Ret (s', outs) w' /\
    trace_ok (rev (trace w')) /\
    NoDup (released_in (rev (trace w'))) /\ NoDup (returned_in (rev (trace w'))) /\
    (forall p, In p (released_in (rev (trace w'))) -> In p (returned_in (rev (trace w')))).
Proof. exact HTrace_proofs.C13_history3_trace_ok. Qed.
Print Assumptions C13_history3_trace_ok.
(* non-vacuity: the legal third-layer history of HHist3_proofs (ex3_ops) *)
Example C13_example3 :
  exists s' outs w', run_hist3 HRef_proofs.never 8 ex3_ops s3_0 [] world0 = Ret (s', outs) w' /\
    trace_ok (rev (trace w')) /\ trace_okb (rev (trace w')) = true.
Proof.
  destruct (C13_history3_trace_ok HRef_proofs.never 8 ex3_ops) as (s' & outs & w' & E & T & _).
  - exact ex3_rules.
  - exists s', outs, w'. split; [exact E|]. split; [exact T|]. apply trace_okb_iff. exact T.
Qed.

(* ---- translator tie, second wave: the two multiplying allocation wrappers of memory_utils.c, as translated
   from this run's clang AST, hand the configured allocator exactly one request of the model's size, or none ---- *)
From Coq Require Import ZArith.
From CB Require Import PMem GenLeafTypes Bridge_leaf_alloc.
From CBGen Require Import Gen_leaf.
Theorem C13_code_alloc_multiple : forall a b, a < 2^64 -> b < 2^64 ->
  g_cbor_alloc_multiple (Z.of_N a) (Z.of_N b) = option_map Z.of_N (alloc_multiple_req 64 a b).
Proof. exact bridge_alloc_multiple. Qed.
Theorem C13_code_realloc_multiple : forall a b, a < 2^64 -> b < 2^64 ->
  g_cbor_realloc_multiple (Z.of_N a) (Z.of_N b) = option_map Z.of_N (alloc_multiple_req 64 a b).
Proof. exact bridge_realloc_multiple. Qed.
Print Assumptions C13_code_alloc_multiple.

(* ------------------------------------------------------------------------------------------ *)
(* Which blocks cbor_decref hands to _cbor_free, and in which order, on the C source of this run
   (gen/Gen_effects_ref.v, Bridge_effects_ref.v, HPlansRef_proofs.v): for every type the frees of the plan
   are the TFreeData / TFreeItem tasks of the model's [release_tasks], in the same order — a definite
   string frees its payload and then the item; an indefinite one its chunk array, its header block and
   then the item; a tag its (NULL) data pointer and then the item. *)
From Coq Require Import ZArith String List.
From CB Require Import HPlans HPlansRef HPlansRef_proofs Bridge_effects_ref.
From CBGen Require Import Gen_effects_ref.
Import ListNotations.

Theorem C13_code_decref_plans : forall cc definite e rc ty k nn_child nn_elem nn_value,
  (rc < 2^64)%N -> (0 <= ty < 2^32)%Z ->
  Gcbor_decref cc (dst_z definite) e (Z.of_N rc) ty k nn_child nn_elem nn_value = decref_plan rc ty definite nn_child.
Proof. exact bridge_plan_decref. Qed.
Print Assumptions C13_code_decref_plans.

Theorem C13_release_string_follows_plan : forall a (text : bool) data bytes,
  plan_tasks (tokens a data None None (fun _ _ => None)) (decref_plan 1 (if text then 3 else 2)%Z true false) =
  release_tasks a (NStr text data bytes).
Proof. exact release_string_follows_plan. Qed.

Theorem C13_release_chunked_follows_plan : forall a (text : bool) hdr arr cap chunks,
  let tok := tokens a (Some hdr) arr None (fun k _ => nth_error chunks (Z.to_nat k)) in
  let tasks := release_tasks a (NChunked text hdr arr cap chunks) in
  let i := if text then 1%nat else 0%nat in
  plan_tasks tok (decref_chunks_round_plan i (len chunks) (len chunks)) = skipn (List.length chunks) tasks /\
  skipn (List.length chunks) tasks = [TFreeData arr; TFreeData (Some hdr); TFreeItem a] /\
  (forall k e, nth_error chunks (N.to_nat k) = Some e ->
     plan_tasks tok (decref_chunks_round_plan i (len chunks) k) = [TDecref e]).
Proof. exact release_chunked_follows_plan. Qed.

Theorem C13_release_tag_follows_plan : forall a v child,
  plan_tasks (tokens a None None child (fun _ _ => None))
             (decref_plan 1 TY_TAG true (match child with Some _ => true | None => false end)) =
  release_tasks a (NTag v child).
Proof. exact release_tag_follows_plan. Qed.
Print Assumptions C13_release_chunked_follows_plan.

(* "The streaming decoder, the low-level encoders, fixed-buffer serialization and size computation request no memory at all", as
   written in C: in the call graph regenerated from the AST of this run neither the allocator pointers nor any libc allocation
   function is reachable from cbor_stream_decode, the 27 cbor_encode_* functions, cbor_serialize and the typed serializers, or
   cbor_serialized_size; the only calls through a pointer are the client's callbacks invoked by cbor_stream_decode *)
Theorem C13_no_request_reachable :
  match gen_callgraph with [] => true | _ => forallb fn_allocfree no_alloc_api end = true.
Proof. exact bridge_no_alloc_reachable. Qed.
Print Assumptions C13_no_request_reachable.
Example C13_no_request_reachable_nonvacuous :
  match gen_callgraph with [] => true | _ => negb (fn_allocfree "cbor_load"%string) && negb (getter_pure "cbor_array_get"%string) end = true.
Proof. exact cg_closure_sees_the_allocator. Qed.
