(* C13 — all heap traffic goes through the configured allocator, consistently.
   Statements only.  Model H has exactly one allocator (malloc / realloc / free primitives, one per
   call site of the code, each recording an event); "never handed to the C library directly" is a
   fact about the sources and the binary: the inventory regenerated from the AST of every source on
   this run (Bridge_inventory) and the trace equality under a tagging / arena allocator. *)
From CB Require Import Word HHeap HItems HOps HRef_proofs HRead_proofs Bridge_inventory HHist2_proofs.
From CBGen Require Import Gen_inventory.
Local Open Scope N_scope.

(* the only direct references to libc allocation functions in src/ are the three initialisers of
   the allocator pointers in allocators.c *)
Theorem C13_no_direct_libc : forallb libc_ref_ok gen_libc_refs = true.
Proof. exact bridge_libc_refs. Qed.
Print Assumptions C13_no_direct_libc.

(* every block released by a decref was obtained from the allocator, is still live, and is handed
   to free exactly once *)
Theorem C13_release_protocol : forall own own' ownd a w,
  (forall x, own' x = own x + (if x =? a then 1 else 0)) -> Inv own' ownd [] w ->
  exists w' evs, decref a w = Ret tt w' /\ Inv own ownd [] w' /\
    trace w' = evs ++ trace w /\ Forall is_free evs /\
    (forall p, In (EvFree (Some p)) evs -> heap w p <> None) /\ NoDup (freed evs) /\
    (forall x, heap w' x <> None <-> heap w x <> None /\ ~ In (EvFree (Some x)) evs).
Proof. exact decref_released_exactly_once. Qed.
Print Assumptions C13_release_protocol.

(* fixed-buffer serialization and size computation request no memory at all *)
Theorem C13_serialize_no_requests : forall a n w r w', serialize_h a n w = Ret r w' -> trace w' = trace w /\ nreq w' = nreq w.
Proof. exact C13_no_requests. Qed.
Theorem C13_size_no_requests : forall a w r w', serialized_size_h a w = Ret r w' -> trace w' = trace w /\ nreq w' = nreq w.
Proof. exact C13_no_requests_size. Qed.
Print Assumptions C13_size_no_requests.
(* the streaming decoder and the low-level encoders are pure functions of their arguments in model P
   (PStream.stream_decode, PEnc.encode): they have no allocator to call; the request counter of the
   dec1 / enc streams checks the same of the compiled code. *)

(* cbor_describe walks the item exactly as the abstraction function does: it stores nothing,
   requests nothing from the allocator and frees nothing *)
Theorem C13_describe_readonly : forall fuel a w u w',
  describe_walk fuel a w = Ret u w' ->
  heap w' = heap w /\ next w' = next w /\ nreq w' = nreq w /\ trace w' = trace w /\
  (exists reads, alog w' = reads ++ alog w /\ Forall (fun x => exists b, x = AccR b) reads).
Proof. exact describe_walk_readonly. Qed.
Print Assumptions C13_describe_readonly.
