(* C14 — items decode independently of what follows them: CBOR sequences work.
   Statements only; proofs in theories/PLoad_proofs.v, PRound_proofs.v, PFinal.v. *)
From CB Require Import Word PStream PItem SpecItem PBuild SpecParse PLoad_proofs PRound_proofs PFinal Bridge_inventory.
From CBGen Require Import Gen_inventory.
Local Open Scope N_scope.

(* for every acceptable x and every y: decoding x ++ y yields the same tree and the same
   bytes-read count as decoding x alone *)
Theorem C14_suffix : forall L cap x y t n, bytes_ok x -> bytes_ok y -> len (x ++ y) < SIZE_MAX ->
  load L cap x = LOk t n -> load L cap (x ++ y) = LOk t n /\ n <= len x.
Proof. exact C14_load_suffix. Qed.
Print Assumptions C14_suffix.

(* hence repeated decoding at an offset advanced by bytes-read splits any concatenation of n
   items into exactly those n items, in order, finishing exactly at the end of the buffer *)
Theorem C14_sequence : forall L cap ts, Forall (rt_ok L cap) ts ->
  len (concat (map encode_rfc ts)) < SIZE_MAX ->
  load_seq L cap (length ts) (concat (map encode_rfc ts)) = Some (map canon ts, []).
Proof. exact load_sequence. Qed.
Print Assumptions C14_sequence.

Example C14_example :
  load_seq 2048 (2^20) 3 [0x01; 0x82; 0x02; 0x03; 0x61; 0x61] =
  Some ([IUint I8 1; IArray false [IUint I8 2; IUint I8 3]; IText [0x61]], []).
Proof. vm_compute. reflexivity. Qed.

(* the models compute every offset and count in 64 bits; so does the code: no implicit conversion
   from a 64-bit type to a narrower one exists in any .c file (AST inventory of this run) *)
Theorem C14_no_narrowing_from_64 : forallb (fun g => let '(_, _, from, _, _) := g in from <? 64) gen_narrowing = true.
Proof. exact bridge_no_narrowing_from_64. Qed.
Theorem C14_field_widths : forallb field_is_64 required_fields = true.
Proof. exact bridge_field_widths. Qed.
