(* C07 — size, serialize and serialize_alloc agree; nothing is written beyond the buffer.
   Statements only; proofs in theories/PItem_proofs.v, PMem_proofs.v, PEnc_proofs.v. *)
From CB Require Import Word PStream PEnc PItem SpecItem PItem_proofs PMem_proofs PEnc_proofs PFinal.
From Coq Require Import Lia.
From CB Require Import GenLeafTypes Bridge_leaf_enc.
From CBGen Require Import Gen_leaf.
From Coq Require Import ZArith.
Local Open Scope N_scope.

(* cbor_serialize into n bytes: returns the exact RFC length and stores exactly the RFC bytes when
   they fit; otherwise returns 0 having stored only a prefix of them, all inside the first n bytes *)
Theorem C07_into : forall t size, wf_item t -> size < 2^64 ->
  exists ret out, serialize_into t size = Some (ret, out) /\
    (len (encode_rfc t) <= size -> ret = len (encode_rfc t) /\ out = encode_rfc t) /\
    (size < len (encode_rfc t) -> ret = 0 /\ (exists suffix, encode_rfc t = out ++ suffix) /\ len out <= size).
Proof. exact PItem_proofs.C07_into. Qed.
Print Assumptions C07_into.

(* cbor_serialized_size is that same length (or 0 when it does not fit size_t) *)
Theorem C07_size : forall t, wf_item t ->
  ssize t = let n := len (encode_rfc t) in if n <? 2^64 then n else 0.
Proof. exact ssize_exact_or_zero. Qed.
Print Assumptions C07_size.

(* cbor_serialize_alloc requests exactly that size and fills it with exactly those bytes *)
Theorem C07_alloc : forall t, wf_item t -> len (encode_rfc t) < 2^64 ->
  serialize_alloc t = Some (len (encode_rfc t), len (encode_rfc t), encode_rfc t).
Proof. exact C07_alloc_full. Qed.
Print Assumptions C07_alloc.

(* every low-level encoder returns the number of bytes it wrote, all inside the buffer, or 0
   having written nothing *)
Theorem C07_enc : forall e v size r out, encode e v size = Some (r, out) ->
  (r = len out /\ 0 < r <= size) \/ (r = 0 /\ out = []).
Proof. exact PEnc_proofs.C07_enc. Qed.
Print Assumptions C07_enc.

Example C07_example :
  serialize_into (IArray false [IUint I8 1; ITag 5 (IText [0x61; 0x62])]) 5 = Some (0, [0x82; 0x01; 0xC5; 0x62]) /\
  serialize_into (IArray false [IUint I8 1; ITag 5 (IText [0x61; 0x62])]) 6 = Some (6, [0x82; 0x01; 0xC5; 0x62; 0x61; 0x62]) /\
  wf_item (IArray false [IUint I8 1; ITag 5 (IText [0x61; 0x62])]).
Proof. repeat split; try (vm_compute; reflexivity); cbn; repeat constructor; try lia. Qed.

(* the primitive encoders of encoders.c, as translated from this run's clang AST (size test first,
   then the stores, in program order), are the model's *)
Theorem C07_code_encode_uint8 : forall v size off, v < 2^8 -> off < 2^8 ->
  g_cbor_encode_uint8 (Z.of_N v) (Z.of_N size) (Z.of_N off) = zres (enc_uint8 v size off).
Proof. exact bridge_encode_uint8. Qed.
Theorem C07_code_encode_uint16 : forall v size off, v < 2^16 -> off < 2^8 ->
  g_cbor_encode_uint16 (Z.of_N v) (Z.of_N size) (Z.of_N off) = zres (enc_uint16 v size off).
Proof. exact bridge_encode_uint16. Qed.
Theorem C07_code_encode_uint32 : forall v size off, v < 2^32 -> off < 2^8 ->
  g_cbor_encode_uint32 (Z.of_N v) (Z.of_N size) (Z.of_N off) = zres (enc_uint32 v size off).
Proof. exact bridge_encode_uint32. Qed.
Theorem C07_code_encode_uint64 : forall v size off, v < 2^64 -> off < 2^8 ->
  g_cbor_encode_uint64 (Z.of_N v) (Z.of_N size) (Z.of_N off) = zres (enc_uint64 v size off).
Proof. exact bridge_encode_uint64. Qed.
Theorem C07_code_encode_byte : forall v size, g_cbor_encode_byte (Z.of_N v) (Z.of_N size) = zres (enc_byte v size).
Proof. exact bridge_encode_byte. Qed.
Print Assumptions C07_code_encode_uint64.

(* ---- translator tie, second wave: the float encoders as translated from this run's clang AST ---- *)
From CB Require Import Bridge_leaf_float Bridge_leaf_ehalf.
Theorem C07_code_half : forall val size, val < 2^32 ->
  gcbor_encode_half (Z.of_N val) (Z.of_N size) = option_map zres (encode_half val size).
Proof. exact bridge_encode_half. Qed.
Theorem C07_code_single : forall v size, v < 2^32 ->
  gcbor_encode_single (Z.of_N v) (Z.of_N size) = zres (encode_single v size).
Proof. exact bridge_encode_single. Qed.
Theorem C07_code_double : forall v size, v < 2^64 ->
  gcbor_encode_double (Z.of_N v) (Z.of_N size) = zres (encode_double v size).
Proof. exact bridge_encode_double. Qed.
Print Assumptions C07_code_half.

(* ------------------------------------------------------------------------------------------ *)
(* Translator tie of the serializer's control and arithmetic (translator/effects.py renders
   serialization.c as plans, one per function and one per loop round; gen/Gen_effects_ser.v is
   regenerated from the working tree on every run; Bridge_effects_ser.v; HPlansSer_proofs.v): one round
   of the element loop passes the window `buffer + written, buffer_size - written` and propagates a 0;
   the head of an array is computed from its size; a definite string is accepted iff the head fitted and
   `buffer_size - head >= length`; cbor_serialize_alloc's outcome table. *)
From Coq Require Import String.
From CB Require Import HHeap HItems HOps HCont_proofs HPlans HPlansSer HPlans_proofs HPlansSer_proofs Bridge_effects_ser.
From CBGen Require Import Gen_effects_ser.
Local Open Scope string_scope.
Local Open Scope list_scope.
Local Open Scope N_scope.

Theorem C07_code_array_round_followed : forall al definite total k x r size written out w1 o1,
  written <= size -> size < 2 ^ 64 -> k < total -> total < 2 ^ 64 ->
  serialize_into x (size - written) = Some (w1, o1) -> w1 <= size - written ->
  let p := Gcbor_serialize_array_loop0 al (dst_z definite) (Z.of_N total) (Z.of_N size) (Z.of_N k) (Z.of_N written) (Z.of_N w1) in
  p_reqs p = [ReqCall "cbor_serialize" [AP (PSlot slots0 (Z.of_N k) ""); APO (PArg 1) (Z.of_N written); AZ (Z.of_N (size - written))]] /\
  (w1 = 0 -> returns p = true /\ ret_N p = 0 /\ ser_seq serialize_into (x :: r) size written out = Some (0, out ++ o1)) /\
  (w1 <> 0 -> to_head 0 p = true /\ fieldN "round" p = k + 1 /\ fieldN "acc0" p = written + w1 /\
              ser_seq serialize_into (x :: r) size written out = ser_seq serialize_into r size (fieldN "acc0" p) (out ++ o1)).
Proof. exact code_array_round_followed. Qed.
Print Assumptions C07_code_array_round_followed.

Theorem C07_code_defstr_followed : forall cc (text : bool) mt (d : list N) size k a,
  size < 2 ^ 64 -> len d < 2 ^ 64 -> fst (enc_uint (len d) size mt) <= size ->
  let hd := enc_uint (len d) size mt in
  let p := (if text then Gcbor_serialize_string else Gcbor_serialize_bytestring)
             cc (dst_z true) (Z.of_N (len d)) (Z.of_N size) k a (Z.of_N (fst hd)) in
  ser_defstr mt d size = (ret_N p, if negb (ret_N p =? 0) then snd hd ++ d else snd hd) /\
  (ret_N p <> 0 -> ret_N p = fst hd + len d /\ fst hd + len d <= size /\
                   p_effs p = if 0 <? len d then [CopyAt (PArg 1) (Z.of_N (fst hd)) (PField item0 "data") (Z.of_N (len d))] else []).
Proof. exact code_defstr_followed. Qed.
Print Assumptions C07_code_defstr_followed.

Theorem C07_code_serialize_alloc_followed : forall refuse a w t w1 wr out (nn : bool) osz,
  abs_of a w = Ret t w1 ->
  serialize_into t (ssize t) = Some (wr, out) -> ssize t < 2 ^ 64 -> wr < 2 ^ 64 ->
  let ok := malloc_ok refuse (nreq w1) (ssize t) in
  let p := Gcbor_serialize_alloc osz nn ok (Z.of_N (ssize t)) (Z.of_N wr) in
  exists bytes w',
    serialize_alloc_h refuse a w = Ret (ret_N p, out_buffer p (next w1), bytes) w' /\
    trace w' = (if ssize t =? 0 then [] else [EvMalloc (ssize t) (if ok then Some (next w1) else None)]) ++ trace w1 /\
    (nn = true -> fieldN "out_size" p = if (ssize t =? 0) || negb ok then 0 else ssize t) /\
    (nn = false -> p_fields p = []) /\
    ((ssize t =? 0) || negb ok = true -> ret_N p = 0 /\ out_buffer p (next w1) = None /\ heap w' = heap w1) /\
    ((ssize t =? 0) || negb ok = false -> ret_N p = wr /\ bytes = out /\ heap w' (next w1) = Some (CData (ssize t))).
Proof. exact code_serialize_alloc_followed. Qed.
Print Assumptions C07_code_serialize_alloc_followed.

Theorem C07_after_parts_follows_plan : forall (indef : bool) size written (out : list N),
  written <= size -> size < 2 ^ 64 -> written <> 0 ->
  let bw := fst (enc_byte 0xFF (size - written)) in
  let bo := snd (enc_byte 0xFF (size - written)) in
  let p := after_parts (negb indef) written size bw in
  p_reqs p = (if indef then [ReqCall "cbor_encode_break" [APO (PArg 1) (Z.of_N written); AZ (Z.of_N (size - written))]] else []) /\
  ser_close indef size (Some (written, out)) =
    Some (ret_N p, if indef && negb (bw =? 0) then out ++ bo else out).
Proof. exact after_parts_follows_plan. Qed.
