(* C07 — size, serialize and serialize_alloc agree; nothing is written beyond the buffer.
   Statements only; proofs in theories/PItem_proofs.v, PMem_proofs.v, PEnc_proofs.v. *)
From CB Require Import Word PStream PEnc PItem SpecItem PItem_proofs PMem_proofs PEnc_proofs PFinal.
From Coq Require Import Lia.
From CB Require Import GenLeafTypes Bridge_leaf_enc.
From CBGen Require Import Gen_leaf.
From Coq Require Import ZArith.
Local Open Scope N_scope.

(* cbor_serialize into n bytes: returns the exact RFC length and stores exactly the RFC bytes when
   they fit; otherwise returns 0 having stored only a prefix of them, all inside the first n bytes *)
Theorem C07_into : forall t size, wf_item t -> size < 2^64 ->
  exists ret out, serialize_into t size = Some (ret, out) /\
    (len (encode_rfc t) <= size -> ret = len (encode_rfc t) /\ out = encode_rfc t) /\
    (size < len (encode_rfc t) -> ret = 0 /\ (exists suffix, encode_rfc t = out ++ suffix) /\ len out <= size).
Proof. exact PItem_proofs.C07_into. Qed.
Print Assumptions C07_into.

(* cbor_serialized_size is that same length (or 0 when it does not fit size_t) *)
Theorem C07_size : forall t, wf_item t ->
  ssize t = let n := len (encode_rfc t) in if n <? 2^64 then n else 0.
Proof. exact ssize_exact_or_zero. Qed.
Print Assumptions C07_size.

(* cbor_serialize_alloc requests exactly that size and fills it with exactly those bytes *)
Theorem C07_alloc : forall t, wf_item t -> len (encode_rfc t) < 2^64 ->
  serialize_alloc t = Some (len (encode_rfc t), len (encode_rfc t), encode_rfc t).
Proof. exact C07_alloc_full. Qed.
Print Assumptions C07_alloc.

(* every low-level encoder returns the number of bytes it wrote, all inside the buffer, or 0
   having written nothing *)
Theorem C07_enc : forall e v size r out, encode e v size = Some (r, out) ->
  (r = len out /\ 0 < r <= size) \/ (r = 0 /\ out = []).
Proof. exact PEnc_proofs.C07_enc. Qed.
Print Assumptions C07_enc.

Example C07_example :
  serialize_into (IArray false [IUint I8 1; ITag 5 (IText [0x61; 0x62])]) 5 = Some (0, [0x82; 0x01; 0xC5; 0x62]) /\
  serialize_into (IArray false [IUint I8 1; ITag 5 (IText [0x61; 0x62])]) 6 = Some (6, [0x82; 0x01; 0xC5; 0x62; 0x61; 0x62]) /\
  wf_item (IArray false [IUint I8 1; ITag 5 (IText [0x61; 0x62])]).
Proof. repeat split; try (vm_compute; reflexivity); cbn; repeat constructor; try lia. Qed.

(* the primitive encoders of encoders.c, as translated from this run's clang AST (size test first,
   then the stores, in program order), are the model's *)
Theorem C07_code_encode_uint8 : forall v size off, v < 2^8 -> off < 2^8 ->
  g_cbor_encode_uint8 (Z.of_N v) (Z.of_N size) (Z.of_N off) = zres (enc_uint8 v size off).
Proof. exact bridge_encode_uint8. Qed.
Theorem C07_code_encode_uint16 : forall v size off, v < 2^16 -> off < 2^8 ->
  g_cbor_encode_uint16 (Z.of_N v) (Z.of_N size) (Z.of_N off) = zres (enc_uint16 v size off).
Proof. exact bridge_encode_uint16. Qed.
Theorem C07_code_encode_uint32 : forall v size off, v < 2^32 -> off < 2^8 ->
  g_cbor_encode_uint32 (Z.of_N v) (Z.of_N size) (Z.of_N off) = zres (enc_uint32 v size off).
Proof. exact bridge_encode_uint32. Qed.
Theorem C07_code_encode_uint64 : forall v size off, v < 2^64 -> off < 2^8 ->
  g_cbor_encode_uint64 (Z.of_N v) (Z.of_N size) (Z.of_N off) = zres (enc_uint64 v size off).
Proof. exact bridge_encode_uint64. Qed.
Theorem C07_code_encode_byte : forall v size, g_cbor_encode_byte (Z.of_N v) (Z.of_N size) = zres (enc_byte v size).
Proof. exact bridge_encode_byte. Qed.
Print Assumptions C07_code_encode_uint64.

(* ---- translator tie, second wave: the float encoders as translated from this run's clang AST ---- *)
From CB Require Import Bridge_leaf_float Bridge_leaf_ehalf.
Theorem C07_code_half : forall val size, val < 2^32 ->
  gcbor_encode_half (Z.of_N val) (Z.of_N size) = option_map zres (encode_half val size).
Proof. exact bridge_encode_half. Qed.
Theorem C07_code_single : forall v size, v < 2^32 ->
  gcbor_encode_single (Z.of_N v) (Z.of_N size) = zres (encode_single v size).
Proof. exact bridge_encode_single. Qed.
Theorem C07_code_double : forall v size, v < 2^64 ->
  gcbor_encode_double (Z.of_N v) (Z.of_N size) = zres (encode_double v size).
Proof. exact bridge_encode_double. Qed.
Print Assumptions C07_code_half.
