(* C11 — cbor_copy yields an equal, fully independent tree and leaves the source intact.
   Statements only (generated from the types of the theorems proved in theories/HCopy_proofs.v, where
   shaped — every node down to the fuel depth is a live item with a representable count, tags have
   their child, map pairs their value —, own1, rc_bounded are defined).  The allocator oracle is
   arbitrary.  "Equal" is equality of the abstraction [abs] (types, widths, flavour, chunking,
   order); "independent" is: every cell of the copy is at an address the source heap had never
   used, every cell of the source below it; addresses are never reused in model H. *)
From CB Require Import Word PStream PItem PBuild HHeap HItems HOps HRef_proofs HCont_proofs HRead_proofs HCopy_proofs HLoad_proofs.
(* the main theorem: source cells (contents and counts) untouched; on refusal the heap is exactly what it was; on success the copy is fresh, disjoint from the source, all counts 1, abstracts to the same tree, and releasing it restores the heap *)
Theorem C11_copy_spec :
  forall (refuse : N -> N -> bool) (fuel : nat) 
           (a : addr) (w : world) (own ownd : addr -> N),
         Inv own ownd [] w ->
         shaped fuel (heap w) a ->
         exists (r : option addr) (w' : world),
           copy refuse fuel a w = Ret r w' /\
           (next w <= next w')%N /\
           (forall b : N, (b < next w)%N -> heap w' b = heap w b) /\
           match r with
           | Some a' =>
               (next w <= a')%N /\
               (a' < next w')%N /\
               (forall (b rc : N) (n : node),
                (next w <= b)%N -> heap w' b = Some (CItem rc n) -> rc = 1%N) /\
               (forall b : N,
                (next w <= b)%N ->
                heap w' b <> None -> HRead_proofs.reach w' a' b) /\
               (forall b : addr, HRead_proofs.reach w' a' b -> (next w <= b)%N) /\
               (forall b : addr, HRead_proofs.reach w' a b -> (b < next w)%N) /\
               (forall (t : item) (w1 : world),
                abs fuel a w = Ret t w1 ->
                exists w2 : world, abs fuel a' w' = Ret t w2) /\
               Inv (fun x : addr => if (x =? a')%N then 1%N else own x) ownd []
                 w' /\
               (exists w'' : world,
                  decref a' w' = Ret tt w'' /\
                  (forall b : addr, heap w'' b = heap w b) /\
                  Inv own ownd [] w'')
           | None =>
               (forall b : N, (next w <= b)%N -> heap w' b = None) /\
               (forall b : addr, heap w' b = heap w b) /\ Inv own ownd [] w'
           end.
Proof. exact copy_spec. Qed.
Print Assumptions C11_copy_spec.

(* whenever the source can be read as a tree, the copy reads as the same tree and so does the source afterwards *)
Theorem C11_copy_readable :
  forall (refuse : N -> N -> bool) (fuel : nat) 
           (a : addr) (w : world) (own ownd : addr -> N) 
           (t : item) (w1 : world),
         Inv own ownd [] w ->
         rc_bounded (heap w) ->
         abs fuel a w = Ret t w1 ->
         exists (r : option addr) (w' : world),
           copy refuse (S fuel) a w = Ret r w' /\
           (forall b : N, (b < next w)%N -> heap w' b = heap w b) /\
           match r with
           | Some a' =>
               (next w <= a')%N /\
               (exists w2 : world, abs (S fuel) a' w' = Ret t w2) /\
               (exists w2 : world, abs (S fuel) a w' = Ret t w2) /\
               (forall b : addr, HRead_proofs.reach w' a' b -> (next w <= b)%N) /\
               (forall b : addr, HRead_proofs.reach w' a b -> (b < next w)%N) /\
               (forall (b rc : N) (n : node),
                (next w <= b)%N -> heap w' b = Some (CItem rc n) -> rc = 1%N) /\
               Inv (fun x : addr => if (x =? a')%N then 1%N else own x) ownd []
                 w'
           | None =>
               (forall b : addr, heap w' b = heap w b) /\ Inv own ownd [] w'
           end.
Proof. exact C11_copy_readable. Qed.
Print Assumptions C11_copy_readable.

(* the copy can be released without any effect on the source *)
Theorem C11_release_copy :
  forall (refuse : N -> N -> bool) (fuel : nat) 
           (a : addr) (w : world) (own ownd : addr -> N) 
           (a' : addr) (w' : world),
         Inv own ownd [] w ->
         shaped fuel (heap w) a ->
         copy refuse fuel a w = Ret (Some a') w' ->
         exists w'' : world,
           decref a' w' = Ret tt w'' /\
           (forall b : addr, heap w'' b = heap w b) /\
           Inv own ownd [] w'' /\
           (forall (t : item) (w1 : world),
            abs fuel a w = Ret t w1 ->
            exists w2 : world, abs fuel a w'' = Ret t w2).
Proof. exact C11_release_copy. Qed.
Print Assumptions C11_release_copy.

(* the source can be released without any effect on the copy *)
Theorem C11_release_source :
  forall (refuse : N -> N -> bool) (fuel : nat) 
           (a : addr) (w : world) (own ownd : addr -> N) 
           (a' : addr) (w' : world),
         Inv (own1 own a) ownd [] w ->
         shaped fuel (heap w) a ->
         copy refuse fuel a w = Ret (Some a') w' ->
         exists w'' : world,
           decref a w' = Ret tt w'' /\
           (forall b : N, (next w <= b)%N -> heap w'' b = heap w' b) /\
           Inv (own1 own a') ownd [] w'' /\
           (forall (t : item) (w1 : world),
            abs fuel a' w' = Ret t w1 ->
            exists w2 : world, abs fuel a' w'' = Ret t w2).
Proof. exact C11_release_source. Qed.
Print Assumptions C11_release_source.

(* a release only modifies cells reachable from its argument *)
Theorem C11_decref_footprint :
  forall (a : addr) (w w' : world),
         decref a w = Ret tt w' ->
         (forall b : addr, ~ HRead_proofs.reach w a b -> heap w' b = heap w b) /\
         next w' = next w.
Proof. exact decref_footprint. Qed.
Print Assumptions C11_decref_footprint.

(* cbor_copy never touches released memory, never faults *)
Theorem C11_copy_never_faults :
  forall (refuse : N -> N -> bool) (fuel : nat) 
           (a : addr) (w : world) (own ownd : addr -> N) 
           (k : fkind),
         Inv own ownd [] w ->
         shaped fuel (heap w) a -> copy refuse fuel a w <> Fault k.
Proof. exact copy_never_faults. Qed.
Print Assumptions C11_copy_never_faults.


(* ------------------------------------------------------------------------------------------ *)
(* Translator tie of cbor_copy (translator/effects.py renders it as five plans: entry — with the static
   helpers _cbor_copy_int / _cbor_copy_float_ctrl inlined — and one round of each of its four loops;
   gen/Gen_effects_copy.v; Bridge_effects_copy.v; HPlansCopy_proofs.v): what the model's [copy] does per
   type and per loop round is what the plans generated from the C source say — a definite array copy is
   sized by the SIZE of the source; a round copies the child, attaches the COPY (never the source
   child) and releases its own reference to the copy; an integer is rebuilt with the builder of its
   width and marked negative only when the allocation succeeded. *)
From Coq Require Import ZArith String List.
From CB Require Import GenLeafTypes HPlans HPlansSer HPlansCopy HPlans_proofs HPlansCopy_proofs Bridge_effects_copy.
From CBGen Require Import Gen_effects_copy.
Import ListNotations.
Local Open Scope string_scope.
Local Open Scope list_scope.
Local Open Scope N_scope.

Theorem C11_code_copy_array_entry_followed :
  forall refuse f a w rc (indef : bool) data al_ elems w1 al cc ctrl len_ v wd g8 g16 g32 g64 k ok0 ok1 ok2 c,
  rd_item a w = Ret (rc, NArr indef data al_ elems) w1 ->
  ctrl < 2 ^ 64 -> len elems < 2 ^ 64 -> len_ < 2 ^ 64 -> v < 2 ^ 64 -> (0 <= wd < 2 ^ 32)%Z ->
  let p := Gcbor_copy al cc (Z.of_N ctrl) (dst_z (negb indef)) (Z.of_N (len elems)) (Z.of_N len_) TY_ARRAY (Z.of_N v) wd g16 g32 g64 g8 k ok0 ok1 ok2 c in
  p_reqs p = [if indef then ReqCall "cbor_new_indefinite_array" [] else ReqCall "cbor_new_definite_array" [AZ (Z.of_N (len elems))]] /\
  (ok0 = true -> goes_on 2 p = true /\ p_effs p = [Carry 0 (PNew 0)]) /\
  (ok0 = false -> returns_null p = true) /\
  copy refuse (S f) a w =
    (r <- (if indef then new_indefinite_array refuse else new_definite_array refuse (len elems)) ;;
     match r with None => ret None | Some rs => arr_loop refuse (copy refuse f) rs data elems end) w1.
Proof. exact code_copy_array_entry_followed. Qed.
Print Assumptions C11_code_copy_array_entry_followed.

Theorem C11_code_copy_int_followed :
  forall refuse f a w rc (neg : bool) iw val w1 al cc ctrl dst e len_ v g8 g16 g32 g64 k ok0 ok1 ok2 c definite,
  rd_item a w = Ret (rc, NInt neg iw val) w1 ->
  ctrl < 2 ^ 64 -> e < 2 ^ 64 -> len_ < 2 ^ 64 -> v < 2 ^ 64 -> dst = dst_z definite ->
  let p := Gcbor_copy al cc (Z.of_N ctrl) dst (Z.of_N e) (Z.of_N len_) (if neg then TY_NEGINT else TY_UINT) (Z.of_N v) (iw_z iw) g16 g32 g64 g8 k ok0 ok1 ok2 c in
  let payload := match iw with I8 => g8 | I16 => g16 | I32 => g32 | I64 => g64 end in
  p_reqs p = ReqCall (int_builder iw) [AZ payload] :: (if neg && ok0 then [ReqCall "cbor_mark_negint" [AP (PNew 0)]] else []) /\
  p_ret p = RP (pnew ok0 0) /\
  copy refuse (S f) a w = build_int refuse neg iw val w1.
Proof. exact code_copy_int_followed. Qed.
Print Assumptions C11_code_copy_int_followed.

Theorem C11_copy_tag_follows_plan :
  forall refuse f a w rc v x w1 w2 w3 x1 x2 ty_w length size ctrl g8 g16 g32 g64,
  rd_item a w = Ret (rc, NTag v (Some x)) w1 ->
  incref x w1 = Ret x1 w2 -> move x w2 = Ret x2 w3 ->
  (forall w4 ok2, copy refuse f x w3 = Ret None w4 ->
     let p := copy_plan TY_TAG ty_w true length size v ctrl g8 g16 g32 g64 true false ok2 in
     returns_null p = true /\ p_reqs p = [ReqCall "cbor_tag_item" [AP src]; copy_of (PNew 0)] /\
     p_effs p = [Move (PNew 0)] /\
     copy refuse (S f) a w = Ret None w4) /\
  (forall ic t w4 w5, copy refuse f x w3 = Ret (Some ic) w4 -> build_tag refuse v ic w4 = Ret t w5 ->
     let ok2 := match t with Some _ => true | None => false end in
     let p := copy_plan TY_TAG ty_w true length size v ctrl g8 g16 g32 g64 true true ok2 in
     p_ret p = RP (pnew ok2 2) /\
     p_reqs p = [ReqCall "cbor_tag_item" [AP src]; copy_of (PNew 0);
                 ReqCall "cbor_build_tag" [AZ (Z.of_N v); AP (PNew 1)]; drop (PNew 1)] /\
     copy refuse (S f) a w = run_drops (round_val 0 (Some x) (Some ic)) (p_reqs p) (ret t) w5).
Proof. exact copy_tag_follows_plan. Qed.
Print Assumptions C11_copy_tag_follows_plan.

Theorem C11_code_copy_plans : forall al cc ctrl definite e len ty v w g8 g16 g32 g64 k ok0 ok1 ok2 c,
  ctrl < 2^64 -> e < 2^64 -> len < 2^64 -> v < 2^64 -> (0 <= ty < 2^32)%Z -> (0 <= w < 2^32)%Z ->
  Gcbor_copy al cc (Z.of_N ctrl) (dst_z definite) (Z.of_N e) (Z.of_N len) ty (Z.of_N v) w g16 g32 g64 g8 k ok0 ok1 ok2 c =
  copy_plan ty w definite len e v ctrl g8 g16 g32 g64 ok0 ok1 ok2.
Proof. exact bridge_plan_copy. Qed.
