(* C11 — cbor_copy yields an equal, fully independent tree and leaves the source intact.
   Statements only (generated from the types of the theorems proved in theories/HCopy_proofs.v, where
   shaped — every node down to the fuel depth is a live item with a representable count, tags have
   their child, map pairs their value —, own1, rc_bounded are defined).  The allocator oracle is
   arbitrary.  "Equal" is equality of the abstraction [abs] (types, widths, flavour, chunking,
   order); "independent" is: every cell of the copy is at an address the source heap had never
   used, every cell of the source below it; addresses are never reused in model H. *)
From CB Require Import Word PStream PItem PBuild HHeap HItems HOps HRef_proofs HCont_proofs HRead_proofs HCopy_proofs HLoad_proofs.
(* the main theorem: source cells (contents and counts) untouched; on refusal the heap is exactly what it was; on success the copy is fresh, disjoint from the source, all counts 1, abstracts to the same tree, and releasing it restores the heap *)
Theorem C11_copy_spec :
  forall (refuse : N -> N -> bool) (fuel : nat) 
           (a : addr) (w : world) (own ownd : addr -> N),
         Inv own ownd [] w ->
         shaped fuel (heap w) a ->
         exists (r : option addr) (w' : world),
           copy refuse fuel a w = Ret r w' /\
           (next w <= next w')%N /\
           (forall b : N, (b < next w)%N -> heap w' b = heap w b) /\
           match r with
           | Some a' =>
               (next w <= a')%N /\
               (a' < next w')%N /\
               (forall (b rc : N) (n : node),
                (next w <= b)%N -> heap w' b = Some (CItem rc n) -> rc = 1%N) /\
               (forall b : N,
                (next w <= b)%N ->
                heap w' b <> None -> HRead_proofs.reach w' a' b) /\
               (forall b : addr, HRead_proofs.reach w' a' b -> (next w <= b)%N) /\
               (forall b : addr, HRead_proofs.reach w' a b -> (b < next w)%N) /\
               (forall (t : item) (w1 : world),
                abs fuel a w = Ret t w1 ->
                exists w2 : world, abs fuel a' w' = Ret t w2) /\
               Inv (fun x : addr => if (x =? a')%N then 1%N else own x) ownd []
                 w' /\
               (exists w'' : world,
                  decref a' w' = Ret tt w'' /\
                  (forall b : addr, heap w'' b = heap w b) /\
                  Inv own ownd [] w'')
           | None =>
               (forall b : N, (next w <= b)%N -> heap w' b = None) /\
               (forall b : addr, heap w' b = heap w b) /\ Inv own ownd [] w'
           end.
Proof. exact copy_spec. Qed.
Print Assumptions C11_copy_spec.

(* whenever the source can be read as a tree, the copy reads as the same tree and so does the source afterwards *)
Theorem C11_copy_readable :
  forall (refuse : N -> N -> bool) (fuel : nat) 
           (a : addr) (w : world) (own ownd : addr -> N) 
           (t : item) (w1 : world),
         Inv own ownd [] w ->
         rc_bounded (heap w) ->
         abs fuel a w = Ret t w1 ->
         exists (r : option addr) (w' : world),
           copy refuse (S fuel) a w = Ret r w' /\
           (forall b : N, (b < next w)%N -> heap w' b = heap w b) /\
           match r with
           | Some a' =>
               (next w <= a')%N /\
               (exists w2 : world, abs (S fuel) a' w' = Ret t w2) /\
               (exists w2 : world, abs (S fuel) a w' = Ret t w2) /\
               (forall b : addr, HRead_proofs.reach w' a' b -> (next w <= b)%N) /\
               (forall b : addr, HRead_proofs.reach w' a b -> (b < next w)%N) /\
               (forall (b rc : N) (n : node),
                (next w <= b)%N -> heap w' b = Some (CItem rc n) -> rc = 1%N) /\
               Inv (fun x : addr => if (x =? a')%N then 1%N else own x) ownd []
                 w'
           | None =>
               (forall b : addr, heap w' b = heap w b) /\ Inv own ownd [] w'
           end.
Proof. exact C11_copy_readable. Qed.
Print Assumptions C11_copy_readable.

(* the copy can be released without any effect on the source *)
Theorem C11_release_copy :
  forall (refuse : N -> N -> bool) (fuel : nat) 
           (a : addr) (w : world) (own ownd : addr -> N) 
           (a' : addr) (w' : world),
         Inv own ownd [] w ->
         shaped fuel (heap w) a ->
         copy refuse fuel a w = Ret (Some a') w' ->
         exists w'' : world,
           decref a' w' = Ret tt w'' /\
           (forall b : addr, heap w'' b = heap w b) /\
           Inv own ownd [] w'' /\
           (forall (t : item) (w1 : world),
            abs fuel a w = Ret t w1 ->
            exists w2 : world, abs fuel a w'' = Ret t w2).
Proof. exact C11_release_copy. Qed.
Print Assumptions C11_release_copy.

(* the source can be released without any effect on the copy *)
Theorem C11_release_source :
  forall (refuse : N -> N -> bool) (fuel : nat) 
           (a : addr) (w : world) (own ownd : addr -> N) 
           (a' : addr) (w' : world),
         Inv (own1 own a) ownd [] w ->
         shaped fuel (heap w) a ->
         copy refuse fuel a w = Ret (Some a') w' ->
         exists w'' : world,
           decref a w' = Ret tt w'' /\
           (forall b : N, (next w <= b)%N -> heap w'' b = heap w' b) /\
           Inv (own1 own a') ownd [] w'' /\
           (forall (t : item) (w1 : world),
            abs fuel a' w' = Ret t w1 ->
            exists w2 : world, abs fuel a' w'' = Ret t w2).
Proof. exact C11_release_source. Qed.
Print Assumptions C11_release_source.

(* a release only modifies cells reachable from its argument *)
Theorem C11_decref_footprint :
  forall (a : addr) (w w' : world),
         decref a w = Ret tt w' ->
         (forall b : addr, ~ HRead_proofs.reach w a b -> heap w' b = heap w b) /\
         next w' = next w.
Proof. exact decref_footprint. Qed.
Print Assumptions C11_decref_footprint.

(* cbor_copy never touches released memory, never faults *)
Theorem C11_copy_never_faults :
  forall (refuse : N -> N -> bool) (fuel : nat) 
           (a : addr) (w : world) (own ownd : addr -> N) 
           (k : fkind),
         Inv own ownd [] w ->
         shaped fuel (heap w) a -> copy refuse fuel a w <> Fault k.
Proof. exact copy_never_faults. Qed.
Print Assumptions C11_copy_never_faults.

