#!/usr/bin/env python3
"""dev helper: run one stream's generator through hx (rel/dbg) and the model, print disagreements"""
import sys, os, random, time
sys.path.insert(0, os.path.dirname(os.path.dirname(os.path.abspath(__file__))))
from vlib import build, corr, runner
from collections import Counter
import importlib
def main():
    genmod, genfn, stream = sys.argv[1], sys.argv[2], sys.argv[3]
    args = sys.argv[4:]
    flav = os.environ.get("FLAV", "rel")
    spec = os.environ.get("SPEC")
    class C: pass
    ctx = C(); ctx.tier = os.environ.get("TIER", "quick"); ctx.rng = random.Random(int(os.environ.get("VERIF_SEED", "1")))
    cases = getattr(importlib.import_module("gen." + genmod), genfn)(ctx)
    print(len(cases), "cases")
    with build.Workdir() as wd:
        cfg = build.configure(wd); hx = build.build_hx(wd, cfg, flav)
        t = time.time(); impl = corr.run_stream([hx, stream] + args, cases); print("impl", round(time.time() - t, 1))
        t = time.time(); model = corr.run_stream(corr.model_cmd(spec or stream, args), cases); print("model", round(time.time() - t, 1))
        d = corr.compare(cases, impl, model)
        print("disagreements:", len(d))
        for x in d[:12]:
            print("  case:", x[1][:150]); print("    impl :", x[2][:300]); print("    model:", x[3][:300])
        print(Counter(runner.classify_line(l) for l in model).most_common(8))
main()
