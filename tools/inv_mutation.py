#!/usr/bin/env python3
"""Inventory obligations (theories/Bridge_inventory.v) against every stored patch.

usage: inv_mutation.py [jobs]        (writes seeded/inventory_mutation.json)
For each seeded change (seeded/C*-*/patch.diff: meaning-changing) and each independent harmless refactoring
(seeded/harmless/out_*/R*-*/patch.diff): apply it ALONE to a scratch worktree of /repo, regenerate Gen_inventory.v from that
tree into a scratch directory, compile it and Bridge_inventory.v there, and record which lemma fails (none = pass).
Expected: every harmless patch passes; a seeded change fails exactly when it adds a static / a libc allocation / a narrowing /
a store in a getter / an allocator call under a no-allocation entry point."""
import glob, json, os, re, subprocess, sys, tempfile, shutil
from concurrent.futures import ThreadPoolExecutor

VERIF = os.path.dirname(os.path.dirname(os.path.abspath(__file__)))
COQ = os.path.join(VERIF, "coq")

WORKER = r'''
import sys, os
sys.path.insert(0, %(verif)r)
from vlib import build
from translator import inventory, cast
with build.Workdir() as wd:
    cfg = build.configure(wd, None)
    inv, notes = inventory.scan(cfg)
    open(sys.argv[1], "w").write(inventory.emit(inv))
    print("NOTES", notes)
'''

def sh(cmd, cwd=None, env=None, timeout=900):
    p = subprocess.run(cmd, shell=True, cwd=cwd, env=env, stdout=subprocess.PIPE, stderr=subprocess.STDOUT, text=True, timeout=timeout)
    return p.returncode, p.stdout

def lemma_at(vfile, line):
    name = None
    for i, l in enumerate(open(vfile).read().split("\n"), 1):
        m = re.match(r"\s*(Lemma|Theorem|Example)\s+(\w+)", l)
        if m:
            name = m.group(2)
        if i >= line:
            break
    return name

def one(args):
    pid, patch, wt = args
    sh("git checkout -- . && git clean -fdq", cwd=wt)
    rc, out = sh("git apply %s" % patch, cwd=wt)
    if rc != 0:
        alts = sorted(glob.glob(os.path.join(os.path.dirname(patch), "patch_rebased_*.diff")), reverse=True)
        for a in alts:
            rc, out = sh("git apply %s" % a, cwd=wt)
            if rc == 0:
                break
    if rc != 0:
        return pid, {"error": "does not apply"}
    d = tempfile.mkdtemp(prefix="invmut-")
    try:
        env = dict(os.environ, VERIF_REPO=wt)
        wk = os.path.join(d, "w.py")
        open(wk, "w").write(WORKER % {"verif": VERIF})
        rc, out = sh("python3 %s %s" % (wk, os.path.join(d, "Gen_inventory.v")), env=env)
        if rc != 0:
            return pid, {"error": "scan failed: " + out[-300:]}
        shutil.copy(os.path.join(COQ, "theories", "Bridge_inventory.v"), d)
        rc, out = sh("coqc -Q . CBGen Gen_inventory.v && coqc -Q . CBGen -Q %s/theories CB Bridge_inventory.v" % COQ, cwd=d)
        if rc == 0:
            return pid, {"result": "pass"}
        m = re.search(r'Bridge_inventory.v", line (\d+)', out)
        return pid, {"result": "fail", "lemma": lemma_at(os.path.join(d, "Bridge_inventory.v"), int(m.group(1))) if m else "?"}
    finally:
        shutil.rmtree(d, ignore_errors=True)
        sh("git checkout -- . && git clean -fdq", cwd=wt)

def main():
    jobs = int(sys.argv[1]) if len(sys.argv) > 1 else 8
    items = []
    for p in sorted(glob.glob(os.path.join(VERIF, "seeded", "C*-*", "patch.diff"))):
        items.append(("M:" + os.path.basename(os.path.dirname(p)), p))
    for p in sorted(glob.glob(os.path.join(VERIF, "seeded", "harmless", "out_*", "R*-*", "patch.diff"))):
        items.append(("H:" + os.path.basename(os.path.dirname(p)), p))
    root = tempfile.mkdtemp(prefix="invmut-wt-")
    wts = []
    for j in range(jobs):
        wt = os.path.join(root, "wt%d" % j)
        sh("git -C /repo worktree add --detach %s HEAD" % wt)
        wts.append(wt)
    res = {}
    try:
        # static partition: worker j handles items j, j+jobs, ... sequentially in its own worktree
        def run(j):
            out = []
            for k in range(j, len(items), jobs):
                out.append(one((items[k][0], items[k][1], wts[j])))
                print(out[-1], flush=True)
            return out
        with ThreadPoolExecutor(jobs) as ex:
            for part in ex.map(run, range(jobs)):
                for pid, r in part:
                    res[pid] = r
    finally:
        for wt in wts:
            sh("git -C /repo worktree remove --force %s" % wt)
        shutil.rmtree(root, ignore_errors=True)
    json.dump(res, open(os.path.join(VERIF, "seeded", "inventory_mutation.json"), "w"), indent=1, sort_keys=True)
    h = [k for k in res if k.startswith("H:")]
    m = [k for k in res if k.startswith("M:")]
    print("harmless: %d pass, %d fail, %d error" % (sum(res[k].get("result") == "pass" for k in h), sum(res[k].get("result") == "fail" for k in h), sum("error" in res[k] for k in h)))
    print("seeded:   %d pass, %d fail, %d error" % (sum(res[k].get("result") == "pass" for k in m), sum(res[k].get("result") == "fail" for k in m), sum("error" in res[k] for k in m)))
    for k in sorted(res):
        if res[k].get("result") == "fail":
            print("  ", k, res[k]["lemma"])

if __name__ == "__main__":
    main()
