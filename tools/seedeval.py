#!/usr/bin/env python3
"""Validate seeded changes and run the checks against them.

usage: seedeval.py validate <patchdir> <worktree>     (compiles, suite passes, demo fails with / passes without)
       seedeval.py detect <patchdir> [ID ...]         (apply to /repo, run ./check for the property (+ extra IDs), revert)
       seedeval.py all <outroot>                      (every <outroot>/out_*/<ID>-<k>: validate + detect; writes results json)
Patches are applied to /repo only for the duration of a check and reverted straight afterwards."""
import json, os, re, subprocess, sys, time, glob, shlex

VERIF = os.path.dirname(os.path.dirname(os.path.abspath(__file__)))
# the patched tree the checks are run against: /repo itself, or a scratch worktree of it (EVAL_REPO) so that
# other runs that read /repo are not disturbed; the checks honour VERIF_REPO
EVAL_REPO = os.environ.get("EVAL_REPO", "/repo")
os.environ["VERIF_REPO"] = EVAL_REPO

def save_evidence():
    """the checks rewrite evidence/<id>.json on every run: runs against a patched /repo must not leave theirs behind"""
    import shutil, tempfile
    d = tempfile.mkdtemp(prefix="evid_keep_")
    for f in glob.glob(os.path.join(VERIF, "evidence", "*.json")):
        shutil.copy2(f, d)
    return d

def restore_evidence(d):
    import shutil
    for f in glob.glob(os.path.join(d, "*.json")):
        shutil.copy2(f, os.path.join(VERIF, "evidence"))
    shutil.rmtree(d, ignore_errors=True)

def sh(cmd, cwd=None, timeout=1800):
    p = subprocess.run(cmd, shell=True, cwd=cwd, stdout=subprocess.PIPE, stderr=subprocess.STDOUT, text=True, timeout=timeout)
    return p.returncode, p.stdout

def build_wt(wt):
    rc, out = sh("cmake -G Ninja -S %s -B %s/_b -DWITH_TESTS=ON -DCMAKE_BUILD_TYPE=RelWithDebInfo > /dev/null 2>&1 && cmake --build %s/_b 2>&1 | tail -5" % (wt, wt, wt))
    return rc, out

def run_demo(pdir, wt, meta):
    if os.path.exists(os.path.join(pdir, "demo.sh")) and "demo.sh" in (meta.get("demo_run", "") + meta.get("demo_build", "")):
        cmds = [c for c in (meta.get("demo_build"), meta.get("demo_run")) if c]
    else:
        cmds = [c for c in (meta.get("demo_build"), meta.get("demo_run")) if c]
    def clean(c):
        c = c.strip()
        if c.startswith("$ "):
            c = c[2:]
        c = re.sub(r"\s+\((?:exit|prints|expect|with|no |should|returns|OK|the )[^)]*\)\s*$", "", c)
        c = re.sub(r"\s{2,}\(.*$", "", c)
        c = re.sub(r"\s+#.*$", "", c)
        c = re.sub(r"\s*;\s*echo \$\?\s*$", "", c)
        return c
    cmds = [clean(c) for c in cmds if not c.strip().startswith('(')]
    out_all, rc = "", 0
    for c in cmds:
        rc, out = sh(c, cwd=pdir, timeout=900)
        out_all += "$ %s\n%s\n" % (c, out[-1500:])
        if rc != 0:
            break
    return rc, out_all

def validate(pdir, wt):
    meta = json.load(open(os.path.join(pdir, "meta.json")))
    res = {"dir": pdir}
    sh("git checkout -- . && git clean -fdq -e _b", cwd=wt)
    rc, out = sh("git apply %s" % os.path.join(pdir, "patch.diff"), cwd=wt)
    if rc != 0:
        res["error"] = "patch does not apply: " + out[-300:]; return res
    rc, out = build_wt(wt)
    res["builds"] = rc == 0
    if rc != 0:
        res["error"] = out[-500:]
        sh("git checkout -- .", cwd=wt); return res
    rc, out = sh("ctest --test-dir %s/_b -j8 --timeout 900 2>&1 | tail -4" % wt)
    res["suite_passes"] = "100% tests passed" in out
    rc, out = run_demo(pdir, wt, meta)
    res["demo_fails_with_change"] = rc != 0
    res["demo_with"] = out[-600:]
    sh("git checkout -- . && git clean -fdq -e _b", cwd=wt)      # a patch may ADD files (a shadowing header): remove them too
    if "new file mode" in open(os.path.join(pdir, "patch.diff")).read():
        sh("rm -rf %s/_b" % wt)                                  # ninja's dependency files do not notice a header that disappears from the include path
    build_wt(wt)
    rc, out = run_demo(pdir, wt, meta)
    res["demo_passes_without"] = rc == 0
    res["demo_without"] = out[-300:]
    res["valid"] = bool(res["builds"] and res["suite_passes"] and res["demo_fails_with_change"] and res["demo_passes_without"])
    return res

def detect(pdir, ids):
    res = {}
    rc, out = sh("git -C %s status --porcelain --untracked-files=no" % EVAL_REPO)
    if out.strip():
        raise SystemExit("/repo has uncommitted changes: refusing to apply a seeded patch")
    rc, out = sh("git -C %s apply %s" % (EVAL_REPO, os.path.join(pdir, "patch.diff")))
    if rc != 0:
        # a later fix: commit touched the same lines: use the rebased copy stored beside the original
        for alt in sorted(glob.glob(os.path.join(pdir, "patch_rebased_*.diff")), reverse=True):
            rc, out = sh("git -C %s apply %s" % (EVAL_REPO, alt))
            if rc == 0:
                break
    if rc != 0:
        return {"error": "patch does not apply to /repo: " + out[-300:]}
    keep = save_evidence()
    try:
        for pid in ids:
            t = time.time()
            rc, out = sh("./check %s" % pid, cwd=VERIF, timeout=3000)
            viol = [l for l in out.split("\n") if l.startswith("VIOLATION")]
            res[pid] = {"exit": rc, "violations": viol[:3], "wall_s": round(time.time() - t, 1)}
            if viol:
                m = re.search(r"replay=(\S+)", viol[0])
                if m and os.path.exists(m.group(1)):
                    try:
                        r = json.load(open(m.group(1)))
                        res[pid]["replay"] = {k: (str(v)[:300]) for k, v in r.items() if k in ("stream", "case", "implementation", "model", "spec_verdict", "kind", "broken_obligations")}
                    except Exception:
                        pass
    finally:
        sh("git -C %s checkout -- . && git -C %s clean -fdq -e _build -e _b" % (EVAL_REPO, EVAL_REPO))
        restore_evidence(keep)
    return res

def main():
    mode = sys.argv[1]
    if mode == "validate":
        print(json.dumps(validate(sys.argv[2], sys.argv[3]), indent=1))
    elif mode == "detect":
        pdir = sys.argv[2]
        meta = json.load(open(os.path.join(pdir, "meta.json")))
        ids = sys.argv[3:] or [meta["property"]]
        print(json.dumps(detect(pdir, ids), indent=1))
    elif mode == "all":
        root = sys.argv[2]
        only = sys.argv[3:]
        results = {}
        _m = re.search(r"seed(\d+)", root)
        rpath = os.path.join(VERIF, "seeded", ("results%s.json" % _m.group(1)) if _m else "results.json")
        if os.path.exists(rpath):
            results = json.load(open(rpath))
        for od in sorted(glob.glob(os.path.join(root, "out_*"))):
            wt = od.replace("out_", "wt_")
            for pdir in sorted(glob.glob(os.path.join(od, "C*-*"))):
                name = os.path.basename(pdir)
                if only and name not in only and name.split("-")[0] not in only:
                    continue
                if not os.path.exists(os.path.join(pdir, "meta.json")) or not os.path.exists(os.path.join(pdir, "patch.diff")):
                    continue
                if name in results and results[name].get("detect") and not only:
                    continue
                meta = json.load(open(os.path.join(pdir, "meta.json")))
                print("==", name, meta.get("summary", "")[:100], flush=True)
                v = validate(pdir, wt)
                print("   valid:", v.get("valid"), {k: v.get(k) for k in ("builds", "suite_passes", "demo_fails_with_change", "demo_passes_without")}, flush=True)
                d = detect(pdir, [meta["property"]]) if v.get("valid") else {}
                for pid, r in d.items():
                    print("   check %s: exit=%s %s" % (pid, r.get("exit") if isinstance(r, dict) else r, (r.get("violations") or [""])[0][:120] if isinstance(r, dict) else ""), flush=True)
                results[name] = {"meta": meta, "validate": v, "detect": d}
                os.makedirs(os.path.dirname(rpath), exist_ok=True)
                json.dump(results, open(rpath, "w"), indent=1)
main()
