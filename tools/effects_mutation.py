#!/usr/bin/env python3
"""Robustness / sensitivity test of the plan bridges (translator/effects.py): coq/theories/
Bridge_effects.v (container functions), Bridge_effects_load.v (decoder glue), Bridge_effects_ser.v
(serializer), Bridge_effects_ref.v (cbor_decref), Bridge_effects_copy.v (cbor_copy).  Applies textual edits (or an independent agent's
patch file) to a PRIVATE copy of the library, regenerates coq/gen with setup.sh's snippet, recompiles
the bridge file the edit concerns, restores the library.

    VERIF_REPO=/path/to/private/libcbor tools/effects_mutation.py [edit-id-prefix ...]
    (VERIF_HARMLESS=<dir containing out_A/ .. out_I/> for the patch edits; default seeded/harmless)

P = behaviour-preserving rewrite: the bridge must still pass (or the function degrade to
translator_unsupported); M = meaning-changing edit: the bridge lemma of that function must fail.
Never run this against /repo: it edits the working tree and restores it with `git checkout -- .`."""
import subprocess, sys, os, json, re
REPO = os.environ.get("VERIF_REPO")
if not REPO or os.path.realpath(REPO) == "/repo":
    sys.exit("set VERIF_REPO to a private worktree of the library")
VERIF = os.path.dirname(os.path.dirname(os.path.abspath(__file__)))
REGEN = r"""
cd %(verif)s && python3 -c "
import sys; sys.path.insert(0,'.')
from vlib import build, runner
from translator import run
with build.Workdir() as wd:
    cfg = build.configure(wd)
    hx = build.build_hx(wd, cfg, 'rel')
    sizes = {k: v for k, v in runner.hx_config(hx).items() if k.startswith('sizeof_')}
    r = run.regenerate(cfg, sizes)
    print('unsupported:', [u for u in r['unsupported']])
" 2>&1 | grep -v conda
"""
COMPILE = r"""
cd %(verif)s/coq
timeout 300 coqc -Q theories CB -Q gen CBGen gen/Gen_effects%(sfx)s.v || { echo GEN-COMPILE-FAILED; exit 2; }
if timeout 1800 coqc -Q theories CB -Q gen CBGen theories/Bridge_effects%(sfx)s.v > %(verif)s/coq/bridge_effects.log 2>&1; then echo BRIDGE-PASS; else echo BRIDGE-FAIL; fi
"""
SFX = {"containers": "", "load": "_load", "ser": "_ser", "ref": "_ref", "copy": "_copy"}
def regen(group):
    return (REGEN + COMPILE) % {"verif": VERIF, "sfx": SFX[group]}
ALLG = ["containers", "load", "ser", "ref", "copy"]
_BASE = {}
def gen_text(group):
    return open(os.path.join(VERIF, "coq", "gen", "Gen_effects%s.v" % SFX[group])).read()
def baseline():
    """the generated files of the unmodified library (an edit that leaves a file as it is cannot change its bridge)"""
    if not _BASE:                     # called by main() on the clean tree, before any edit
        sh(REGEN % {"verif": VERIF})
        for g in ALLG:
            _BASE[g] = gen_text(g)
    return _BASE
def regen_groups(groups):
    """one translation, then the bridge of every group whose generated file differs from the baseline"""
    base = baseline()
    out = sh(REGEN % {"verif": VERIF})
    verdicts = []
    for g in groups:
        if gen_text(g) == base[g]:
            verdicts.append((g, "BRIDGE-PASS (generated file unchanged)", ""))
            continue
        o = sh(COMPILE % {"verif": VERIF, "sfx": SFX[g]})
        log = ""
        if "BRIDGE-FAIL" in o:
            log = open(os.path.join(VERIF, "coq", "bridge_effects.log")).read()
        verdicts.append((g, o, log))
    return out, verdicts
GLUE = ("src/cbor/internal/builder_callbacks.c", "src/cbor.c")
SERF = ("src/cbor/serialization.c",)
def group_of(subs, eid=""):
    if eid.startswith("decref-"):
        return "ref"
    if eid.startswith("copy-"):
        return "copy"
    files = [f for f, _, _, _ in subs]
    if eid.startswith("load-"):
        return "load"
    if any(f in SERF for f in files) or any(f == "PATCH" for f in files):
        return "ser"
    return "load" if any(f in GLUE for f in files) else "containers"
A, M, B, S = "src/cbor/arrays.c", "src/cbor/maps.c", "src/cbor/bytestrings.c", "src/cbor/internal/stack.c"
CHECK = "metadata->end_ptr >= metadata->allocated"
TERN_A = """      size_t new_allocation = metadata->allocated == 0
                                  ? 1
                                  : CBOR_BUFFER_GROWTH * metadata->allocated;
"""
IFELSE_A = """      size_t new_allocation;
      if (metadata->allocated != 0) {
        new_allocation = CBOR_BUFFER_GROWTH * metadata->allocated;
      } else {
        new_allocation = 1;
      }
"""
NOZERO_A = """      size_t new_allocation = CBOR_BUFFER_GROWTH * metadata->allocated;
"""
PUSH_NULLCHK = """      if (new_data == NULL) {
        return false;
      }

      array->data = new_data;
      metadata->allocated = new_allocation;
"""
PUSH_NULLCHK2 = """      if (new_data != NULL) {
        metadata->allocated = new_allocation;
        array->data = new_data;
      } else {
        return false;
      }
"""
MAP_NULLCHK = """      if (new_data == NULL) {
        return false;
      }

      item->data = new_data;
      metadata->allocated = new_allocation;
"""
MAP_NULLCHK2 = """      if (!new_data) return false;
      metadata->allocated = new_allocation;
      item->data = new_data;
"""
REPL_BODY = """  if (index >= item->metadata.array_metadata.end_ptr) return false;
  /* We cannot use cbor_array_get as that would increase the refcount */
  cbor_intermediate_decref(((cbor_item_t**)item->data)[index]);
  ((cbor_item_t**)item->data)[index] = cbor_incref(value);
  return true;
"""
TERN_B = """    size_t new_chunk_capacity =
        data->chunk_capacity == 0 ? 1
                                  : CBOR_BUFFER_GROWTH * (data->chunk_capacity);
"""
BC, CL = "src/cbor/internal/builder_callbacks.c", "src/cbor.c"
BS_NULL = """  unsigned char* new_handle = _cbor_malloc(length);
  if (new_handle == NULL) {
    ctx->creation_failed = true;
    return;
  }

  memcpy(new_handle, data, length);
  cbor_item_t* new_chunk = cbor_new_definite_bytestring();
"""
BS_FREE = """  cbor_item_t* new_chunk = cbor_new_definite_bytestring();

  if (new_chunk == NULL) {
    _cbor_free(new_handle);
    ctx->creation_failed = true;
    return;
  }
"""
LOAD_SWITCH = """    switch (decode_result.status) {
      case CBOR_DECODER_FINISHED:
        /* Everything OK */
        {
          result->read += decode_result.read;
          break;
        }
      case CBOR_DECODER_NEDATA:
        /* Data length doesn't match MTB expectation */
        {
          result->error.code = CBOR_ERR_NOTENOUGHDATA;
          goto error;
        }
      case CBOR_DECODER_ERROR:
        /* Reserved/malformed item */
        {
          result->error.code = CBOR_ERR_MALFORMATED;
          goto error;
        }
    }
"""
LOAD_IFS = """    if (decode_result.status == CBOR_DECODER_ERROR) {
      result->error.code = CBOR_ERR_MALFORMATED;
      goto error;
    } else if (decode_result.status == CBOR_DECODER_NEDATA) {
      result->error.code = CBOR_ERR_NOTENOUGHDATA;
      goto error;
    } else if (decode_result.status == CBOR_DECODER_FINISHED) {
      size_t consumed = decode_result.read;
      result->read += consumed;
    }
"""
SZ = "src/cbor/serialization.c"
HARM = os.environ.get("VERIF_HARMLESS", os.path.join(os.path.dirname(os.path.dirname(os.path.abspath(__file__))), "seeded", "harmless"))     # the independent agents' harmless patches (stored copies)
ARR_LOOP = """  for (size_t i = 0; i < size; i++) {
    size_t item_written =
        cbor_serialize(*(handle++), buffer + written, buffer_size - written);
    if (item_written == 0) return 0;
    written += item_written;
  }

  if (cbor_array_is_definite(item)) {
    return written;
  } else {
    CBOR_ASSERT(cbor_array_is_indefinite(item));
    size_t break_written =
        cbor_encode_break(buffer + written, buffer_size - written);
    if (break_written == 0) return 0;
    return written + break_written;
  }
"""
CM = "src/cbor/common.c"
DEC_ARR = """        cbor_item_t** handle = cbor_array_handle(item);
        size_t size = cbor_array_size(item);
        for (size_t i = 0; i < size; i++)
          if (handle[i] != NULL) cbor_decref(&handle[i]);
        _cbor_free(item->data);
        break;
"""
DEC_MAP = """        for (size_t i = 0; i < item->metadata.map_metadata.end_ptr;
             i++, handle++) {
          cbor_decref(&handle->key);
          if (handle->value != NULL) cbor_decref(&handle->value);
        }
"""
CP_ARR = """      for (size_t i = 0; i < cbor_array_size(item); i++) {
        cbor_item_t* entry_copy = cbor_copy(cbor_move(cbor_array_get(item, i)));
        if (entry_copy == NULL) {
          cbor_decref(&res);
          return NULL;
        }
        if (!cbor_array_push(res, entry_copy)) {
          cbor_decref(&entry_copy);
          cbor_decref(&res);
          return NULL;
        }
        cbor_decref(&entry_copy);
      }
      return res;
"""
CP_TAG = """      cbor_item_t* item_copy = cbor_copy(cbor_move(cbor_tag_item(item)));
      if (item_copy == NULL) {
        return NULL;
      }
      cbor_item_t* tag = cbor_build_tag(cbor_tag_value(item), item_copy);
      cbor_decref(&item_copy);
      return tag;
"""
CP_VALFAIL = """        if (value_copy == NULL) {
          cbor_decref(&res);
          cbor_decref(&key_copy);
          return NULL;
        }
"""
# (id, kind, [(file, old, new, count)])   kind: P = behaviour preserving, M = meaning changing
EDITS = [
 ("push-P1", "P", [(A, CHECK, "!(metadata->end_ptr < metadata->allocated)", 2)]),
 ("push-P2", "P", [(A, "    ((cbor_item_t**)array->data)[metadata->end_ptr++] = pushee;", "    cbor_incref(pushee);\n    ((cbor_item_t**)array->data)[metadata->end_ptr++] = pushee;", 1),
                   (A, "  cbor_incref(pushee);\n  return true;\n}\n\nbool cbor_array_is_definite", "  return true;\n}\n\nbool cbor_array_is_definite", 1),
                   (A, "    data[metadata->end_ptr++] = pushee;", "    cbor_incref(pushee);\n    size_t at = metadata->end_ptr;\n    metadata->end_ptr = at + 1;\n    data[at] = pushee;", 1)]),
 ("push-M7", "M", [(A, "  if (cbor_array_is_definite(array)) {\n    /* Do not reallocate", "  cbor_incref(pushee);\n  if (cbor_array_is_definite(array)) {\n    /* Do not reallocate", 1),
                   (A, "  cbor_incref(pushee);\n  return true;\n}\n\nbool cbor_array_is_definite", "  return true;\n}\n\nbool cbor_array_is_definite", 1)]),
 ("push-P3", "P", [(A, TERN_A, IFELSE_A, 1), (A, PUSH_NULLCHK, PUSH_NULLCHK2, 1),
                   (A, "  if (cbor_array_is_definite(array)) {\n    /* Do not reallocate definite arrays */\n    if (" + CHECK + ") {\n      return false;\n    }\n    data[metadata->end_ptr++] = pushee;",
                       "  if (cbor_array_is_definite(array)) {\n    if (metadata->allocated > metadata->end_ptr) {\n      data[metadata->end_ptr++] = pushee;\n    } else {\n      return false;\n    }", 1)]),
 ("push-M1", "M", [(A, "    /* Exponential realloc */\n    if (" + CHECK + ")", "    /* Exponential realloc */\n    if (metadata->end_ptr > metadata->allocated)", 1)]),
 ("push-M2", "M", [(A, TERN_A, NOZERO_A, 1)]),
 ("push-M3", "M", [(A, "  cbor_incref(pushee);\n  return true;", "  return true;", 1)]),
 ("push-M4", "M", [(A, "array->data, sizeof(cbor_item_t*), new_allocation", "array->data, sizeof(cbor_item_t), new_allocation", 1)]),
 ("push-M5", "M", [(A, "    ((cbor_item_t**)array->data)[metadata->end_ptr++] = pushee;", "    metadata->end_ptr++;\n    ((cbor_item_t**)array->data)[metadata->end_ptr] = pushee;", 1)]),
 ("push-M6", "M", [(A, "    /* Do not reallocate definite arrays */\n    if (" + CHECK + ")", "    /* Do not reallocate definite arrays */\n    if (metadata->end_ptr > metadata->allocated)", 1)]),

 ("replace-P1", "P", [(A, "bool cbor_array_replace(cbor_item_t* item, size_t index, cbor_item_t* value) {\n  if (index >= item->metadata.array_metadata.end_ptr) return false;",
                          "bool cbor_array_replace(cbor_item_t* item, size_t index, cbor_item_t* value) {\n  if (!(index < item->metadata.array_metadata.end_ptr)) return false;", 1)]),
 ("replace-P2", "P", [(A, REPL_BODY, """  if (index >= item->metadata.array_metadata.end_ptr) return false;
  cbor_item_t** slots = (cbor_item_t**)item->data;
  cbor_item_t* old = slots[index];
  cbor_incref(value);
  slots[index] = value;
  cbor_intermediate_decref(old);
  return true;
""", 1)]),
 ("replace-P3", "P", [(A, REPL_BODY, """  size_t n = cbor_array_size(item);
  if (index < n) {
    cbor_intermediate_decref(((cbor_item_t**)item->data)[index]);
    ((cbor_item_t**)item->data)[index] = cbor_incref(value);
    return true;
  } else {
    return false;
  }
""", 1)]),
 ("replace-M1", "M", [(A, "bool cbor_array_replace(cbor_item_t* item, size_t index, cbor_item_t* value) {\n  if (index >= item->metadata.array_metadata.end_ptr) return false;",
                          "bool cbor_array_replace(cbor_item_t* item, size_t index, cbor_item_t* value) {\n  if (index > item->metadata.array_metadata.end_ptr) return false;", 1)]),
 ("replace-M2", "M", [(A, "  ((cbor_item_t**)item->data)[index] = cbor_incref(value);\n  return true;", "  ((cbor_item_t**)item->data)[index] = value;\n  return true;", 1)]),
 ("replace-M3", "M", [(A, "  cbor_intermediate_decref(((cbor_item_t**)item->data)[index]);\n", "", 1)]),
 ("replace-M4", "M", [(A, "  ((cbor_item_t**)item->data)[index] = cbor_incref(value);\n  return true;", "  ((cbor_item_t**)item->data)[index + 1] = cbor_incref(value);\n  return true;", 1)]),

 ("addkey-P1", "P", [(M, CHECK, "!(metadata->end_ptr < metadata->allocated)", 2)]),
 ("addkey-P2", "P", [(M, "    struct cbor_pair* data = cbor_map_handle(item);\n    data[metadata->end_ptr].key = key;\n    data[metadata->end_ptr++].value = NULL;\n  }\n  cbor_incref(key);\n  return true;",
                         "    struct cbor_pair* data = cbor_map_handle(item);\n    cbor_incref(key);\n    data[metadata->end_ptr].key = key;\n    data[metadata->end_ptr++].value = NULL;\n  }\n  return true;", 1),
                     (M, "    data[metadata->end_ptr].key = key;\n    data[metadata->end_ptr++].value = NULL;\n  } else {",
                         "    cbor_incref(key);\n    data[metadata->end_ptr].value = NULL;\n    data[metadata->end_ptr].key = key;\n    metadata->end_ptr += 1;\n  } else {", 1)]),
 ("addkey-P3", "P", [(M, TERN_A, IFELSE_A, 1), (M, MAP_NULLCHK, MAP_NULLCHK2, 1)]),
 ("addkey-M1", "M", [(M, "    if (" + CHECK + ") {\n      /* Don't realloc", "    if (metadata->end_ptr > metadata->allocated) {\n      /* Don't realloc", 1)]),
 ("addkey-M2", "M", [(M, "item->data, sizeof(struct cbor_pair), new_allocation", "item->data, sizeof(cbor_item_t*), new_allocation", 1)]),
 ("addkey-M3", "M", [(M, TERN_A, NOZERO_A, 1)]),
 ("addkey-M4", "M", [(M, "    struct cbor_pair* data = cbor_map_handle(item);\n    data[metadata->end_ptr].key = key;\n    data[metadata->end_ptr++].value = NULL;\n  }\n  cbor_incref(key);",
                         "    struct cbor_pair* data = cbor_map_handle(item);\n    data[metadata->end_ptr++].key = key;\n  }\n  cbor_incref(key);", 1)]),
 ("addkey-M5", "M", [(M, "  cbor_incref(key);\n  return true;\n}", "  return true;\n}", 1)]),

 ("chunk-P1", "P", [(B, "  if (data->chunk_count == data->chunk_capacity) {", "  if (!(data->chunk_count != data->chunk_capacity)) {", 1)]),
 ("chunk-P2", "P", [(B, "  data->chunks[data->chunk_count++] = cbor_incref(chunk);", "  cbor_incref(chunk);\n  size_t n = data->chunk_count;\n  data->chunks[n] = chunk;\n  data->chunk_count = n + 1;", 1)]),
 ("chunk-P3", "P", [(B, TERN_B, """    size_t new_chunk_capacity = 1;
    if (data->chunk_capacity != 0) new_chunk_capacity = data->chunk_capacity * CBOR_BUFFER_GROWTH;
""", 1), (B, "    data->chunk_capacity = new_chunk_capacity;\n    data->chunks = new_chunks_data;", "    data->chunks = new_chunks_data;\n    data->chunk_capacity = new_chunk_capacity;", 1)]),
 ("chunk-M1", "M", [(B, "  if (data->chunk_count == data->chunk_capacity) {", "  if (data->chunk_count > data->chunk_capacity) {", 1)]),
 ("chunk-M2", "M", [(B, TERN_B, "    size_t new_chunk_capacity = CBOR_BUFFER_GROWTH * (data->chunk_capacity);\n", 1)]),
 ("chunk-M3", "M", [(B, "  data->chunks[data->chunk_count++] = cbor_incref(chunk);", "  data->chunks[data->chunk_count++] = chunk;", 1)]),
 ("chunk-M4", "M", [(B, "        data->chunks, sizeof(cbor_item_t*), new_chunk_capacity);", "        data->chunks, sizeof(cbor_item_t), new_chunk_capacity);", 1)]),
 ("chunk-M5", "M", [(B, "  data->chunks[data->chunk_count++] = cbor_incref(chunk);", "  data->chunks[++data->chunk_count] = cbor_incref(chunk);", 1)]),

 ("stack-P1", "P", [(S, "  if (stack->size == CBOR_MAX_STACK_SIZE) return NULL;", "  if (!(stack->size != CBOR_MAX_STACK_SIZE)) {\n    return NULL;\n  }", 1),
                    (S, "  stack->top = new_top;\n  stack->size++;", "  stack->size = stack->size + 1;\n  stack->top = new_top;", 1)]),
 ("stack-M1", "M", [(S, "  if (stack->size == CBOR_MAX_STACK_SIZE) return NULL;", "  if (stack->size > CBOR_MAX_STACK_SIZE) return NULL;", 1)]),
 ("stack-M2", "M", [(S, "_cbor_malloc(sizeof(struct _cbor_stack_record));", "_cbor_malloc(sizeof(struct _cbor_stack_record*));", 1)]),
 ("get-M1", "M", [(A, "  if (index >= item->metadata.array_metadata.end_ptr) return NULL;", "  if (index > item->metadata.array_metadata.end_ptr) return NULL;", 1)]),
 ("get-P1", "P", [(A, "  if (index >= item->metadata.array_metadata.end_ptr) return NULL;\n  return cbor_incref(((cbor_item_t**)item->data)[index]);",
                      "  if (index < cbor_array_size(item)) {\n    cbor_item_t* e = cbor_array_handle(item)[index];\n    cbor_incref(e);\n    return e;\n  }\n  return NULL;", 1)]),
 # ---------------- decoder glue: builder_callbacks.c (BC) and cbor.c (CL) ----------------
 ("append-P1", "P", [(BC, "  if (ctx->stack->size == 0) {\n    /* Top level item */", "  if (!(ctx->stack->size != 0)) {\n    /* Top level item */", 1),
                     (BC, "      if (ctx->stack->top->subitems % 2) {", "      if ((ctx->stack->top->subitems % 2) != 0) {", 1)]),
 ("append-P2", "P", [(BC, "        ctx->stack->top->subitems--;\n        if (ctx->stack->top->subitems == 0) {",
                          "        size_t left = ctx->stack->top->subitems - 1;\n        ctx->stack->top->subitems = left;\n        if (left == 0) {", 2)]),
 ("append-P3", "P", [(BC, "      cbor_tag_set_item(ctx->stack->top->item, item);\n      cbor_decref(&item); /* Give up on our reference */\n      cbor_item_t* tagged_item = ctx->stack->top->item;\n",
                          "      cbor_item_t* tagged_item = ctx->stack->top->item;\n      cbor_tag_set_item(tagged_item, item);\n      cbor_decref(&item); /* Give up on our reference */\n", 1),
                     (BC, "      cbor_decref(&item);\n      ctx->syntax_error = true;", "      ctx->syntax_error = true;\n      cbor_decref(&item);", 1),
                     (BC, "        if (!cbor_array_push(ctx->stack->top->item, item)) {\n          ctx->creation_failed = true;\n        }\n        cbor_decref(&item);",
                          "        bool pushed = cbor_array_push(ctx->stack->top->item, item);\n        cbor_decref(&item);\n        if (pushed) {\n        } else {\n          ctx->creation_failed = true;\n        }", 1)]),
 ("append-M1", "M", [(BC, "      if (ctx->stack->top->subitems % 2) {", "      if (ctx->stack->top->subitems % 2 == 0) {", 1)]),
 ("append-M2", "M", [(BC, "          cbor_item_t* stack_item = ctx->stack->top->item;\n          _cbor_stack_pop(ctx->stack);\n", "          cbor_item_t* stack_item = ctx->stack->top->item;\n", 1)]),
 ("append-M3", "M", [(BC, "          ctx->creation_failed = true;\n          cbor_decref(&item);\n          break;", "          ctx->creation_failed = true;\n          break;", 2)]),
 ("append-M4", "M", [(BC, "        if (ctx->stack->top->subitems == 0) {\n          cbor_item_t* stack_item", "        if (ctx->stack->top->subitems == 1) {\n          cbor_item_t* stack_item", 1)]),
 ("append-M5", "M", [(BC, "      cbor_decref(&item); /* Give up on our reference */\n      cbor_item_t* tagged_item = ctx->stack->top->item;\n      _cbor_stack_pop(ctx->stack);\n",
                          "      cbor_item_t* tagged_item = ctx->stack->top->item;\n      _cbor_stack_pop(ctx->stack);\n      cbor_decref(&item); /* Give up on our reference */\n", 1)]),
 ("append-M6", "M", [(BC, "    ctx->root = item;\n    return;", "    return;", 1)]),
 ("append-M7", "M", [(BC, "          cbor_item_t* map_entry = ctx->stack->top->item;\n          _cbor_stack_pop(ctx->stack);\n          _cbor_builder_append(map_entry, ctx);",
                          "          _cbor_stack_pop(ctx->stack);\n          cbor_item_t* map_entry = ctx->stack->top->item;\n          _cbor_builder_append(map_entry, ctx);", 1)]),
 ("append-M8", "M", [(BC, "        ctx->stack->top->subitems ^=\n            1;", "        ctx->stack->top->subitems += 1;", 1)]),

 ("break-P1", "P", [(BC, "  if (ctx->stack->size > 0) {\n    cbor_item_t* item = ctx->stack->top->item;", "  if (ctx->stack->size != 0) {\n    cbor_item_t* item = ctx->stack->top->item;", 1)]),
 ("break-P2", "P", [(BC, "        (item->type != CBOR_TYPE_MAP || ctx->stack->top->subitems % 2 == 0)) {", "        (!(item->type == CBOR_TYPE_MAP) || !(ctx->stack->top->subitems % 2))) {", 1)]),
 ("break-P3", "P", [(BC, "  if (ctx->stack->size > 0) {\n    cbor_item_t* item = ctx->stack->top->item;",
                         "  if (ctx->stack->size == 0) {\n    ctx->syntax_error = true;\n    return;\n  }\n  {\n    cbor_item_t* item = ctx->stack->top->item;\n    size_t halves = ctx->stack->top->subitems;", 1),
                    (BC, "ctx->stack->top->subitems % 2 == 0)) {", "halves % 2 == 0)) {", 1)]),
 ("break-M1", "M", [(BC, "ctx->stack->top->subitems % 2 == 0)) {", "ctx->stack->top->subitems % 2 == 1)) {", 1)]),
 ("break-M2", "M", [(BC, "        (item->type != CBOR_TYPE_MAP || ctx", "        (item->type != CBOR_TYPE_MAP && ctx", 1)]),
 ("break-M3", "M", [(BC, "    if (_cbor_is_indefinite(\n            item) && /* Only indefinite items can be terminated by 0xFF */", "    if (/* Only indefinite items can be terminated by 0xFF */", 1)]),
 ("break-M4", "M", [(BC, "      _cbor_stack_pop(ctx->stack);\n      _cbor_builder_append(item, ctx);\n      return;", "      _cbor_builder_append(item, ctx);\n      _cbor_stack_pop(ctx->stack);\n      return;", 1)]),
 ("break-M5", "M", [(BC, "  if (ctx->stack->size > 0) {\n    cbor_item_t* item = ctx->stack->top->item;", "  if (ctx->stack->size > 1) {\n    cbor_item_t* item = ctx->stack->top->item;", 1)]),
 ("isindef-M1", "M", [(BC, "    case CBOR_TYPE_ARRAY:\n      return cbor_array_is_indefinite(item);", "    case CBOR_TYPE_ARRAY:\n      return cbor_array_is_definite(item);", 1)]),
 ("isindef-P1", "P", [(BC, "    case CBOR_TYPE_MAP:\n      return cbor_map_is_indefinite(item);", "    case CBOR_TYPE_MAP:\n      return !cbor_map_is_definite(item);", 1)]),

 ("bstr-P1", "P", [(BC, BS_NULL, BS_NULL.replace("if (new_handle == NULL) {", "if (!new_handle) {"), 1)]),
 ("bstr-P2", "P", [(BC, BS_FREE, BS_FREE.replace("    _cbor_free(new_handle);\n    ctx->creation_failed = true;", "    ctx->creation_failed = true;\n    _cbor_free(new_handle);"), 1)]),
 ("bstr-P3", "P", [(BC, "  memcpy(new_handle, data, length);\n  cbor_item_t* new_chunk = cbor_new_definite_bytestring();\n", "  cbor_item_t* new_chunk = cbor_new_definite_bytestring();\n", 1),
                   (BC, "  cbor_bytestring_set_handle(new_chunk, new_handle, length);", "  memcpy(new_handle, data, length);\n  cbor_bytestring_set_handle(new_chunk, new_handle, length);", 1),
                   (BC, "    if (!cbor_bytestring_add_chunk(ctx->stack->top->item, new_chunk)) {\n      ctx->creation_failed = true;\n    }",
                        "    bool added = cbor_bytestring_add_chunk(ctx->stack->top->item, new_chunk);\n    if (added == false) ctx->creation_failed = true;", 1)]),
 ("bstr-M1", "M", [(BC, BS_FREE, BS_FREE.replace("    _cbor_free(new_handle);\n", "    _cbor_free(new_handle);\n    _cbor_free(new_handle);\n"), 1)]),
 ("bstr-M2", "M", [(BC, BS_FREE, BS_FREE.replace("    _cbor_free(new_handle);\n", ""), 1)]),
 ("bstr-M3", "M", [(BC, "      ctx->creation_failed = true;\n    }\n    cbor_decref(&new_chunk);\n  } else {\n    _cbor_builder_append(new_chunk, ctx);\n  }\n}\n\nvoid cbor_builder_byte_string_start_callback",
                        "      ctx->creation_failed = true;\n    }\n  } else {\n    _cbor_builder_append(new_chunk, ctx);\n  }\n}\n\nvoid cbor_builder_byte_string_start_callback", 1)]),
 ("bstr-M4", "M", [(BC, "    if (!cbor_bytestring_add_chunk(ctx->stack->top->item, new_chunk)) {\n      ctx->creation_failed = true;\n    }\n    cbor_decref(&new_chunk);",
                        "    cbor_item_t* keep = new_chunk;\n    cbor_decref(&new_chunk);\n    if (!cbor_bytestring_add_chunk(ctx->stack->top->item, keep)) {\n      ctx->creation_failed = true;\n    }", 1)]),
 ("bstr-M5", "M", [(BC, "      cbor_bytestring_is_indefinite(ctx->stack->top->item)) {", "      cbor_bytestring_is_definite(ctx->stack->top->item)) {", 1)]),
 ("bstr-M6", "M", [(BC, "  cbor_bytestring_set_handle(new_chunk, new_handle, length);", "  cbor_bytestring_set_handle(new_chunk, new_handle, length - 1);", 1)]),
 ("bstr-M7", "M", [(BC, BS_NULL, BS_NULL.replace("    ctx->creation_failed = true;\n    return;", "    return;"), 1)]),

 ("mapstart-M1", "M", [(BC, "    PUSH_CTX_STACK(ctx, res, size * 2);", "    PUSH_CTX_STACK(ctx, res, size);", 1)]),
 ("mapstart-M2", "M", [(BC, "  cbor_item_t* res = cbor_new_definite_map(size);\n  CHECK_RES(ctx, res);\n  if (size > 0) {", "  cbor_item_t* res = cbor_new_definite_map(size);\n  CHECK_RES(ctx, res);\n  if (size > 1) {", 1)]),
 ("mapstart-P1", "P", [(BC, "  cbor_item_t* res = cbor_new_definite_map(size);\n  CHECK_RES(ctx, res);\n  if (size > 0) {\n    PUSH_CTX_STACK(ctx, res, size * 2);\n  } else {\n    _cbor_builder_append(res, ctx);\n  }",
                            "  cbor_item_t* res = cbor_new_definite_map(size);\n  CHECK_RES(ctx, res);\n  if (size == 0) {\n    _cbor_builder_append(res, ctx);\n    return;\n  }\n  size_t halves = 2 * size;\n  PUSH_CTX_STACK(ctx, res, halves);", 1)]),
 ("push-ctx-M1", "M", [(BC, "      cbor_decref(&res);                                       \\\n      ctx->creation_failed = true;                             \\", "      ctx->creation_failed = true;                             \\", 1)]),

 ("load-P1", "P", [(CL, "    if (source_size > result->read) { /* Check for overflows */", "    if (result->read < source_size) { /* Check for overflows */", 1),
                   (CL, "          result->read += decode_result.read;", "          result->read = result->read + decode_result.read;", 1)]),
 ("load-P2", "P", [(CL, "  } while (stack.size > 0);", "  } while (stack.size != 0);", 1), (CL, "  while (stack.size > 0) {\n    cbor_decref", "  while (stack.size) {\n    cbor_decref", 1)]),
 ("load-P3", "P", [(CL, "      goto error;\n    } else if (context.syntax_error) {", "      goto error;\n    }\n    if (context.syntax_error) {", 1),
                   (CL, "  if (source_size == 0) {", "  if (!source_size) {", 1)]),
 ("load-P4", "P", [(CL, LOAD_SWITCH, LOAD_IFS, 1)]),
 # constructors through their thin wrappers (inlined from their current bodies) and back
 ("load-RH4", "P", [("PATCH", HARM + "/out_H/RH-4/patch.diff", "", 0)], ["load"]),   # third round: false alarm before wrappers were inlined
 ("load-P5", "P", [(BC, "  cbor_item_t* res = cbor_new_float2();\n  CHECK_RES(ctx, res);\n  cbor_set_float2(res, value);\n", "  cbor_item_t* res = cbor_build_float2(value);\n  CHECK_RES(ctx, res);\n", 1),
                   (BC, "  cbor_item_t* res = cbor_new_float8();\n  CHECK_RES(ctx, res);\n  cbor_set_float8(res, value);\n  _cbor_builder_append(res, ctx);", "  cbor_item_t* res = cbor_build_float8(value);\n  if (res != NULL) {\n    _cbor_builder_append(res, ctx);\n    return;\n  }\n  ctx->creation_failed = true;", 1)]),
 ("load-P6", "P", [(BC, "  cbor_item_t* res = cbor_new_int8();\n  CHECK_RES(ctx, res);\n  cbor_mark_uint(res);\n  cbor_set_uint8(res, value);\n", "  cbor_item_t* res = cbor_build_uint8(value);\n  CHECK_RES(ctx, res);\n", 1),
                   (BC, "  cbor_item_t* res = cbor_new_int16();\n  CHECK_RES(ctx, res);\n  cbor_mark_negint(res);\n  cbor_set_uint16(res, value);\n", "  cbor_item_t* res = cbor_build_negint16(value);\n  CHECK_RES(ctx, res);\n", 1)]),
 ("load-P7", "P", [(BC, "  cbor_item_t* res = cbor_build_bool(value);\n  CHECK_RES(ctx, res);\n", "  cbor_item_t* res = cbor_new_ctrl();\n  CHECK_RES(ctx, res);\n  cbor_set_bool(res, value);\n", 1)]),   # degrades: a constructor the plans do not mention
 ("load-M10", "M", [(BC, "  cbor_item_t* res = cbor_new_float2();\n  CHECK_RES(ctx, res);\n  cbor_set_float2(res, value);\n", "  cbor_item_t* res = cbor_build_float4(value);\n  CHECK_RES(ctx, res);\n", 1)]),   # the wrong wrapper
 ("load-M11", "M", [(BC, "  cbor_item_t* res = cbor_new_int16();\n  CHECK_RES(ctx, res);\n  cbor_mark_negint(res);\n  cbor_set_uint16(res, value);\n", "  cbor_item_t* res = cbor_build_uint16(value);\n  CHECK_RES(ctx, res);\n", 1)]),   # negative integer built unsigned
 ("load-M12", "M", [("src/cbor/floats_ctrls.c", "  cbor_item_t* item = cbor_new_float2();\n  _CBOR_NOTNULL(item);\n  cbor_set_float2(item, value);", "  cbor_item_t* item = cbor_new_float2();\n  _CBOR_NOTNULL(item);", 1),
                    ("PATCH", HARM + "/out_H/RH-4/patch.diff", "", 0)], ["load"]),   # an edit INSIDE the wrapper is seen through the inlining
 ("load-M1", "M", [(CL, "          result->error.code = CBOR_ERR_NOTENOUGHDATA;\n          goto error;", "          result->error.code = CBOR_ERR_MALFORMATED;\n          goto error;", 1)]),
 ("load-M2", "M", [(CL, "  result->error.position = result->read;", "  result->error.position = result->read + 1;", 1)]),
 ("load-M3", "M", [(CL, "    cbor_decref(&stack.top->item);\n    _cbor_stack_pop(&stack);", "    _cbor_stack_pop(&stack);\n    cbor_decref(&stack.top->item);", 1)]),
 ("load-M4", "M", [(CL, "    if (context.creation_failed) {\n      /* Most likely unsuccessful allocation - our callback has failed */\n      result->error.code = CBOR_ERR_MEMERROR;\n      goto error;\n    } else if (context.syntax_error) {\n      result->error.code = CBOR_ERR_SYNTAXERROR;",
                        "    if (context.syntax_error) {\n      result->error.code = CBOR_ERR_SYNTAXERROR;\n      goto error;\n    } else if (context.creation_failed) {\n      result->error.code = CBOR_ERR_MEMERROR;", 1)]),
 ("load-M5", "M", [(CL, "  } while (stack.size > 0);", "  } while (stack.size > 1);", 1)]),
 ("load-M6", "M", [(CL, ".error = {.code = CBOR_ERR_NODATA, .position = 0}};", ".error = {.code = CBOR_ERR_NOTENOUGHDATA, .position = 0}};", 1)]),
 ("load-M7", "M", [(CL, "          result->read += decode_result.read;\n", "", 1)]),
 ("load-M8", "M", [(CL, "    if (source_size > result->read) { /* Check for overflows */", "    if (source_size >= result->read) { /* Check for overflows */", 1)]),
 ("load-M9", "M", [(CL, "    cbor_decref(&stack.top->item);\n    _cbor_stack_pop(&stack);", "    _cbor_stack_pop(&stack);", 1)]),
 # ---------------- serialization.c ----------------
 ("ser-RC1", "P", [("PATCH", HARM + "/out_C/RC-1/patch.diff", "", 0)]),
 ("ser-RC8", "P", [("PATCH", os.path.join(VERIF, "tools", "effects_patches", "RC-8.rebased.diff"), "", 0)]),   # rebased over 60b6b56
 ("ser-RF5", "P", [("PATCH", HARM + "/out_F/RF-5/patch.diff", "", 0)]),
 ("ser-RF6", "P", [("PATCH", os.path.join(VERIF, "tools", "effects_patches", "RF-6.rebased.diff"), "", 0)]),   # rebased over 60b6b56 (the helper keeps the length > 0 guard)
 ("ser-P1", "P", [(SZ, ARR_LOOP, """  size_t i = 0;
  while (i != size) {
    const size_t room = buffer_size - written;
    size_t item_written = cbor_serialize(handle[i], buffer + written, room);
    if (!item_written) return 0;
    written = written + item_written;
    ++i;
  }

  if (!cbor_array_is_definite(item)) {
    size_t break_written =
        cbor_encode_break(buffer + written, buffer_size - written);
    if (break_written == 0) return 0;
    return break_written + written;
  }
  return written;
""", 1)]),
 ("ser-P2", "P", [(SZ, "  if (written == 0) return 0;\n\n  size_t item_written =\n      cbor_serialize(item->metadata.tag_metadata.tagged_item, buffer + written,\n                     buffer_size - written);\n  if (item_written == 0) return 0;\n  return written + item_written;",
                       "  if (written != 0) {\n    unsigned char* rest = buffer + written;\n    size_t item_written = cbor_serialize(item->metadata.tag_metadata.tagged_item, rest, buffer_size - written);\n    if (item_written != 0) return item_written + written;\n  }\n  return 0;", 1)]),
 ("ser-P3", "P", [(SZ, "  *buffer = _cbor_malloc(serialized_size);\n  if (*buffer == NULL) {\n    if (buffer_size != NULL) *buffer_size = 0;\n    return 0;\n  }\n",
                       "  unsigned char* block = _cbor_malloc(serialized_size);\n  *buffer = block;\n  if (!block) {\n    if (buffer_size) *buffer_size = 0;\n    return 0;\n  }\n", 1),
                  (SZ, "        array_size = _cbor_safe_signaling_add(array_size,\n                                              cbor_serialized_size(items[i]));",
                       "        const size_t one = cbor_serialized_size(items[i]);\n        array_size = _cbor_safe_signaling_add(array_size, one);", 1)]),
 ("ser-M1", "M", [(SZ, "    written = cbor_encode_array_start(size, buffer, buffer_size);", "    written = cbor_encode_array_start(cbor_array_allocated(item), buffer, buffer_size);", 1)]),
 ("ser-M2", "M", [(SZ, "    if (written > 0 && (buffer_size - written >= length)) {", "    if (written > 0 && (buffer_size >= length)) {", 1)]),
 ("ser-M3", "M", [(SZ, "    if (written > 0 && (buffer_size - written >= length)) {", "    if (written > 0 && (written + length <= buffer_size)) {", 1)]),
 ("ser-M4", "M", [(SZ, ARR_LOOP, ARR_LOOP.replace("""    size_t break_written =
        cbor_encode_break(buffer + written, buffer_size - written);
    if (break_written == 0) return 0;
    return written + break_written;""", "    return written;"), 1)]),
 ("ser-M5", "M", [(SZ, ARR_LOOP, ARR_LOOP.replace("  if (cbor_array_is_definite(item)) {\n    return written;\n  } else {", "  {"), 1)]),
 ("ser-M6", "M", [(SZ, ARR_LOOP, ARR_LOOP.replace("    if (item_written == 0) return 0;\n", ""), 1)]),
 ("ser-M7", "M", [(SZ, "      return cbor_encode_negint64(cbor_get_uint64(item), buffer, buffer_size);", "      return cbor_encode_negint(cbor_get_uint64(item), buffer, buffer_size);", 1)]),
 ("ser-M8", "M", [(SZ, "        array_size = _cbor_safe_signaling_add(array_size,\n                                              cbor_serialized_size(items[i]));", "        array_size = array_size + cbor_serialized_size(items[i]);", 1)]),
 ("ser-M9", "M", [(SZ, "  if (*buffer == NULL) {\n    if (buffer_size != NULL) *buffer_size = 0;", "  if (*buffer == NULL) {\n    if (buffer_size != NULL) *buffer_size = serialized_size;", 1)]),
 ("ser-M10", "M", [(SZ, "  if (serialized_size == 0) {\n    if (buffer_size != NULL) *buffer_size = 0;\n    return 0;\n  }\n  *buffer = _cbor_malloc(serialized_size);\n",
                        "  *buffer = _cbor_malloc(serialized_size);\n  if (serialized_size == 0) {\n    if (buffer_size != NULL) *buffer_size = 0;\n    return 0;\n  }\n", 1)]),
 ("ser-M11", "M", [(SZ, "    item_written = cbor_serialize((handle++)->value, buffer + written,\n                                  buffer_size - written);", "    item_written = cbor_serialize((handle++)->value, buffer + written,\n                                  buffer_size);", 1)]),
 ("ser-M12", "M", [(SZ, "        cbor_serialize(handle->key, buffer + written, buffer_size - written);", "        cbor_serialize(handle->value, buffer + written, buffer_size - written);", 1),
                   (SZ, "    item_written = cbor_serialize((handle++)->value, buffer + written,", "    item_written = cbor_serialize((handle++)->key, buffer + written,", 1)]),
 ("ser-M13", "M", [(SZ, "        if (cbor_string_length(item) == 0) return header_size;\n", "", 1)]),
 ("ser-M14", "M", [(SZ, "      return cbor_encode_half(cbor_float_get_float2(item), buffer, buffer_size);", "      return cbor_encode_single(cbor_float_get_float2(item), buffer, buffer_size);", 1)]),
 ("ser-M15", "M", [(SZ, "    case CBOR_TYPE_STRING:\n      return cbor_serialize_string(item, buffer, buffer_size);", "    case CBOR_TYPE_STRING:\n      return cbor_serialize_bytestring(item, buffer, buffer_size);", 1)]),
 ("ser-M16", "M", [(SZ, "    size_t chunk_written = cbor_serialize_bytestring(\n          chunks[i], buffer + written, buffer_size - written);", "    size_t chunk_written = cbor_serialize_bytestring(\n          chunks[i], buffer, buffer_size - written);", 1)]),
 ("ser-M17", "M", [(SZ, "  if (buffer_size != NULL) *buffer_size = serialized_size;\n  return written;", "  if (buffer_size != NULL) *buffer_size = written;\n  return serialized_size;", 1)]),
 ("ser-M18", "M", [(SZ, "            _cbor_safe_signaling_add(cbor_serialized_size(items[i].key),\n                                     cbor_serialized_size(items[i].value)));", "            cbor_serialized_size(items[i].key) +\n                                     cbor_serialized_size(items[i].value));", 1)]),
 ("ser-M19", "M", [(SZ, "  for (size_t i = 0; i < size; i++) {\n    size_t item_written =\n        cbor_serialize(*(handle++)", "  for (size_t i = 0; i <= size; i++) {\n    size_t item_written =\n        cbor_serialize(*(handle++)", 1)]),
 # ---------------- cbor_decref (common.c) ----------------
 ("decref-P1", "P", [(CM, "  if (--item->refcount == 0) {\n    switch (item->type) {", "  item->refcount -= 1;\n  if (!(item->refcount != 0)) {\n    switch (item->type) {", 1)]),
 ("decref-P2", "P", [(CM, DEC_ARR, """        cbor_item_t** slot = cbor_array_handle(item);
        size_t left = cbor_array_size(item);
        while (left > 0) {
          if (*slot != NULL) cbor_decref(slot);
          slot++;
          left--;
        }
        _cbor_free(item->data);
        break;
""", 1)]),
 ("decref-P3", "P", [(CM, DEC_MAP, """        const size_t pairs = item->metadata.map_metadata.end_ptr;
        for (size_t i = 0; i != pairs; ++i) {
          cbor_decref(&handle[i].key);
          if (handle[i].value) cbor_decref(&handle[i].value);
        }
""", 1)]),
 ("decref-M1", "M", [(CM, "  if (--item->refcount == 0) {\n    switch (item->type) {", "  if (item->refcount-- == 0) {\n    switch (item->type) {", 1)]),
 ("decref-M2", "M", [(CM, DEC_ARR, DEC_ARR.replace("        _cbor_free(item->data);\n", "").replace("        cbor_item_t** handle = cbor_array_handle(item);\n", "        cbor_item_t** handle = cbor_array_handle(item);\n        _cbor_free(item->data);\n"), 1)]),
 ("decref-M3", "M", [(CM, "          _cbor_free(((struct cbor_indefinite_string_data*)item->data)->chunks);\n          _cbor_free(item->data);\n        }\n        break;\n      }\n      case CBOR_TYPE_STRING:",
                          "          _cbor_free(item->data);\n        }\n        break;\n      }\n      case CBOR_TYPE_STRING:", 1)]),
 ("decref-M4", "M", [(CM, "    _cbor_free(item);\n    *item_ref = NULL;", "    *item_ref = NULL;", 1)]),
 ("decref-M5", "M", [(CM, DEC_ARR, DEC_ARR.replace("i < size", "i <= size"), 1)]),
 ("decref-M6", "M", [(CM, DEC_MAP, DEC_MAP.replace("          cbor_decref(&handle->key);\n          if (handle->value != NULL) cbor_decref(&handle->value);", "          if (handle->value != NULL) cbor_decref(&handle->value);\n          cbor_decref(&handle->key);"), 1)]),
 ("decref-M7", "M", [(CM, "        if (item->metadata.tag_metadata.tagged_item != NULL)\n          cbor_decref(&item->metadata.tag_metadata.tagged_item);\n        _cbor_free(item->data);", "        _cbor_free(item->data);\n        if (item->metadata.tag_metadata.tagged_item != NULL)\n          cbor_decref(&item->metadata.tag_metadata.tagged_item);", 1)]),
 ("decref-M8", "M", [(CM, "      case CBOR_TYPE_BYTESTRING: {\n        if (cbor_bytestring_is_definite(item)) {\n          _cbor_free(item->data);", "      case CBOR_TYPE_BYTESTRING: {\n        if (cbor_bytestring_is_definite(item)) {", 1)]),
 # ---------------- cbor_copy (cbor.c) ----------------
 ("copy-RB8", "P", [("PATCH", HARM + "/out_B/RB-8/patch.diff", "", 0)]),
 ("copy-RF4", "P", [("PATCH", HARM + "/out_F/RF-4/patch.diff", "", 0)]),      # degrades: attach through a type-switching helper
 ("copy-P1", "P", [(CL, CP_ARR, """      const size_t n = cbor_array_size(item);
      size_t i = 0;
      while (i != n) {
        cbor_item_t* source = cbor_array_get(item, i);
        cbor_move(source);
        cbor_item_t* entry_copy = cbor_copy(source);
        if (!entry_copy) {
          cbor_decref(&res);
          return NULL;
        }
        const bool pushed = cbor_array_push(res, entry_copy);
        cbor_decref(&entry_copy);
        if (!pushed) {
          cbor_decref(&res);
          return NULL;
        }
        ++i;
      }
      return res;
""", 1)]),
 ("copy-P2", "P", [(CL, CP_TAG, """      cbor_item_t* child = cbor_tag_item(item);
      cbor_item_t* item_copy = cbor_copy(cbor_move(child));
      if (item_copy != NULL) {
        const uint64_t value = cbor_tag_value(item);
        cbor_item_t* tag = cbor_build_tag(value, item_copy);
        cbor_decref(&item_copy);
        return tag;
      }
      return NULL;
""", 1)]),
 ("copy-P3", "P", [(CL, "  if (negative && res != NULL) cbor_mark_negint(res);\n\n  return res;", "  if (res != NULL) {\n    if (negative) cbor_mark_negint(res);\n  }\n  return res;", 1),
                   (CL, "        cbor_item_t* value_copy = cbor_copy(it[i].value);", "        const struct cbor_pair* pair = it + i;\n        cbor_item_t* value_copy = cbor_copy(pair->value);", 1)]),
 ("copy-M1", "M", [(CL, "          if (!cbor_bytestring_add_chunk(res, chunk_copy)) {", "          if (!cbor_bytestring_add_chunk(res, cbor_bytestring_chunks_handle(item)[i])) {", 1)]),
 ("copy-M2", "M", [(CL, CP_ARR, CP_ARR.replace("        cbor_decref(&entry_copy);\n      }\n      return res;", "      }\n      return res;"), 1)]),
 ("copy-M3", "M", [(CL, CP_ARR, CP_ARR.replace("        if (entry_copy == NULL) {\n          cbor_decref(&res);\n", "        if (entry_copy == NULL) {\n"), 1)]),
 ("copy-M4", "M", [(CL, "        res = cbor_new_definite_array(cbor_array_size(item));", "        res = cbor_new_definite_array(cbor_array_allocated(item));", 1)]),
 ("copy-M5", "M", [(CL, "  if (negative && res != NULL) cbor_mark_negint(res);\n", "", 1)]),
 ("copy-M6", "M", [(CL, "  if (negative && res != NULL) cbor_mark_negint(res);", "  if (negative) cbor_mark_negint(res);", 1)]),
 ("copy-M7", "M", [(CL, "      res = cbor_build_uint32(cbor_get_uint32(item));", "      res = cbor_build_uint64(cbor_get_uint32(item));", 1)]),
 ("copy-M8", "M", [(CL, CP_VALFAIL, CP_VALFAIL.replace("          cbor_decref(&key_copy);\n", ""), 1)]),
 ("copy-M9", "M", [(CL, "          cbor_item_t* chunk_copy =\n              cbor_copy(cbor_string_chunks_handle(item)[i]);", "          cbor_item_t* chunk_copy =\n              cbor_incref(cbor_string_chunks_handle(item)[i]);", 1)]),
 ("copy-M10", "M", [(CL, CP_TAG, CP_TAG.replace("      cbor_decref(&item_copy);\n", ""), 1)]),
 ("copy-M11", "M", [(CL, CP_ARR, CP_ARR.replace("          cbor_decref(&entry_copy);\n          cbor_decref(&res);", "          cbor_decref(&res);\n          cbor_decref(&entry_copy);"), 1)]),
 ("copy-M12", "M", [(CL, "        cbor_item_t* key_copy = cbor_copy(it[i].key);", "        cbor_item_t* key_copy = cbor_copy(it[i].value);", 1)]),
 ("copy-M13", "M", [(CL, "      return _cbor_copy_int(item, true);", "      return _cbor_copy_int(item, false);", 1)]),
]

HARM3 = HARM + "/out_%s/R%s-%d/patch.diff"
# third round of independent harmless refactorings: every patch that touches a file the plan translator reads;
# all five groups are regenerated, the bridges of the changed files must pass (or the function degrade)
EDITS += [("h3-R%s%d" % (c, i), "P", [("PATCH", HARM3 % (c, c, i), "", 0)], ALLG)
          for c, r in (("G", range(1, 9)), ("H", range(1, 9)), ("I", range(1, 9))) for i in r]

def sh(cmd):
    return subprocess.run(cmd, shell=True, stdout=subprocess.PIPE, stderr=subprocess.STDOUT, text=True).stdout

def main():
    only = sys.argv[1:]
    results = []
    if any(len(e_) > 3 and (not only or any(e_[0].startswith(o) for o in only)) for e_ in EDITS):
        sh("git -C %s checkout -- ." % REPO)
        baseline()
    for e_ in EDITS:
        eid, kind, subs = e_[:3]
        if only and not any(eid.startswith(o) for o in only):
            continue
        sh("git -C %s checkout -- ." % REPO)
        okay = True
        for f, old, new, cnt in subs:
            if f == "PATCH":             # an independent agent's patch file (git apply)
                r = subprocess.run(["git", "-C", REPO, "apply", old], stdout=subprocess.PIPE, stderr=subprocess.STDOUT, text=True)
                if r.returncode != 0:
                    print("PATCH DOES NOT APPLY", eid, old, r.stdout[-300:]); okay = False; break
                continue
            p = os.path.join(REPO, f)
            s = open(p).read()
            if s.count(old) != cnt:
                print("EDIT DOES NOT APPLY", eid, f, s.count(old), cnt); okay = False; break
            open(p, "w").write(s.replace(old, new))
        if not okay:
            results.append((eid, kind, "edit-error")); continue
        if len(e_) > 3:              # several groups: every bridge must pass (or the function degrade)
            out, vs = regen_groups(e_[3])
            bad = [(g, o, log) for g, o, log in vs if "BRIDGE-PASS" not in o]
            uns = [l for l in out.split("\n") if l.startswith("unsupported:")]
            where = ""
            for g, o, log in bad:
                m = re.search(r'line (\d+)', log)
                src = open(os.path.join(VERIF, "coq", "theories", "Bridge_effects%s.v" % SFX[g])).read().split("\n")
                nm = "?"
                if m:
                    for i in range(int(m.group(1)) - 1, -1, -1):
                        if src[i].startswith("Lemma"):
                            nm = src[i].split()[1]; break
                where += "%s:%s " % (g, nm if "BRIDGE-FAIL" in o else "ERROR")
            verdict = "PASS" if not bad else "FAIL"
            changed = [g for g, o, _ in vs if "unchanged" not in o]
            expected = (verdict == "PASS") if kind == "P" else (verdict == "FAIL")
            print("%-12s %s -> %-5s %-34s changed: %s %s %s" % (eid, kind, verdict, where, changed, uns[0] if uns else "", "" if expected else "<<< UNEXPECTED"), flush=True)
            results.append((eid, kind, verdict, where))
            continue
        group = group_of(subs, eid)
        out = sh(regen(group))
        lines = [l for l in out.split("\n") if l.strip()]
        verdict = "PASS" if "BRIDGE-PASS" in out else ("FAIL" if "BRIDGE-FAIL" in out else "ERROR")
        uns = [l for l in lines if l.startswith("unsupported:")]
        where = ""
        if verdict == "FAIL":
            log = open(os.path.join(VERIF, "coq", "bridge_effects.log")).read()
            m = re.search(r'line (\d+)', log)
            if m:
                ln = int(m.group(1))
                src = open(os.path.join(VERIF, "coq", "theories", "Bridge_effects%s.v" % SFX[group])).read().split("\n")
                for i in range(ln - 1, -1, -1):
                    if src[i].startswith("Lemma"):
                        where = src[i].split()[1]; break
        if verdict == "ERROR":
            where = " | ".join(lines[-4:])
        expected = (verdict == "PASS") if kind == "P" else (verdict == "FAIL")
        print("%-12s %s -> %-5s %-34s %s %s" % (eid, kind, verdict, where, uns[0] if uns else "", "" if expected else "<<< UNEXPECTED"), flush=True)
        results.append((eid, kind, verdict, where))
    sh("git -C %s checkout -- ." % REPO)
    sh(regen("containers")); sh(regen("load")); sh(regen("ser")); sh(regen("ref")); sh(regen("copy"))   # leave coq/gen regenerated from the restored tree
    try:
        os.remove(os.path.join(VERIF, "coq", "bridge_effects.log"))
    except OSError:
        pass

if __name__ == "__main__":
    main()
