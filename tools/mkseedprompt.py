#!/usr/bin/env python3
"""Write the prompts for a wave of seeded changes and create the scratch worktrees.

usage: mkseedprompt.py <root> <wave-number> <per-property> <style> <group> [<group> ...]
   <root>   scratch directory outside /repo and /verif (e.g. /tmp/seed7)
   <style>  neutral : only the property text and the general request (no list of existing changes): an
                      unbiased sample of what an independent author writes
            steered : as in waves 3-6, with one-line summaries of the stored changes and a request for
                      other mechanisms
   <group>  comma-separated property ids handled by one agent, e.g. C01,C08
Creates <root>/wt_<group> (git worktree of /repo HEAD), <root>/out_<group>/ and <root>/prompt_<group>.txt.
The agents see nothing of /verif: the prompt contains the property texts verbatim."""
import json, os, subprocess, sys, glob

VERIF = os.path.dirname(os.path.dirname(os.path.abspath(__file__)))

def props():
    out = {}
    for l in open(os.path.join(VERIF, "properties.jsonl")):
        d = json.loads(l)
        out[d["id"]] = d
    return out

def existing(pid):
    res = []
    for d in sorted(glob.glob(os.path.join(VERIF, "seeded", pid + "-*"))):
        try:
            m = json.load(open(os.path.join(d, "meta.json")))
        except Exception:
            continue
        res.append(" ".join(m.get("summary", "").split())[:260])
    return res

def ptext(d, style):
    s = "=== %s: %s\n" % (d["id"], d.get("title", ""))
    s += "Statement: %s\n" % d.get("statement", "")
    q = d.get("quantifier")
    if isinstance(q, dict) and q.get("text"):
        s += "Quantified over: %s\n" % q["text"]
    if d.get("why_tests_cant"):
        s += "Why the existing tests cannot settle it: %s\n" % d["why_tests_cant"]
    a = d.get("anchor") or d.get("anchors") or d.get("anchored_in")
    if isinstance(a, dict):
        if a.get("files"):
            s += "Anchored in: %s\n" % ", ".join(a["files"])
        if a.get("mechanism"):
            s += "Mechanisms: %s\n" % "; ".join("%s (%s)" % (m.get("name"), m.get("where")) for m in a["mechanism"])
    if style == "steered":
        ex = existing(d["id"])
        if ex:
            s += "Changes that ALREADY exist for this property (do something different):\n"
            for e in ex:
                s += "  - %s\n" % e
    return s

def main():
    root, wave, per, style = sys.argv[1], int(sys.argv[2]), int(sys.argv[3]), sys.argv[4]
    P = props()
    os.makedirs(root, exist_ok=True)
    for g in sys.argv[5:]:
        ids = g.split(",")
        tag = "_".join(ids)
        wt, out = os.path.join(root, "wt_" + tag), os.path.join(root, "out_" + tag)
        if not os.path.exists(wt):
            subprocess.check_call(["git", "-C", "/repo", "worktree", "add", "--detach", wt, "HEAD"], stdout=subprocess.DEVNULL)
        os.makedirs(out, exist_ok=True)
        total = per * len(ids)
        names = ", ".join("%s-%d%s" % (i, wave, "" if per == 1 else "a/b/..") for i in ids)
        t = []
        t.append("You are helping to evaluate a verification framework for the C library libcbor (PJK/libcbor). Your job is to write *seeded defects*: small, realistic changes to libcbor's source that BREAK a stated semantic property while the library still compiles (no new warnings if possible) and the existing test-suite still passes.\n")
        t.append("Your private scratch git worktree of the library is %s (work ONLY there and in %s; never touch /repo or /verif, and do not read anything under /verif). IMPORTANT: never use `git stash` (the stash is shared between worktrees and other agents work in sibling worktrees): save your change with `git -C %s diff > file` and revert with `git -C %s checkout -- .`.\n" % (wt, out, wt, wt))
        t.append("Build + run the existing suite like this (offline, ~1 min):\n  cmake -G Ninja -S %s -B %s/_b -DWITH_TESTS=ON -DCMAKE_BUILD_TYPE=RelWithDebInfo && cmake --build %s/_b && ctest --test-dir %s/_b -j8 --timeout 900\n" % (wt, wt, wt, wt))
        t.append("For EACH of the properties below write %d change%s (so %d changes in total), stored as %s. Requirements for each change:\n" % (per, "" if per == 1 else "s, different from each other in mechanism and preferably in the file they touch", total, names))
        t.append(" * It must genuinely violate the property text as written (read the property closely, every clause), in the library code under src/ (not in tests/examples/docs).\n")
        if style == "neutral":
            t.append(" * It must need something SPECIFIC to manifest - a particular interleaving, a crash or fault (e.g. a refused allocation) at a particular point, a multi-step sequence of operations, an unusual input, or two cooperating sites that each look fine alone - not something ordinary use would expose at once. It should look like a plausible refactoring, optimisation, hardening or clean-up that a maintainer could have written and a reviewer could have let through.\n")
        else:
            t.append(" * It must need something SPECIFIC to manifest, and it should be SUBTLE - the kind of defect that survives review and ordinary testing. Earlier rounds of such changes exist (listed under each property). Go beyond them: two cooperating sites that each look fine alone; defects that need history (state left behind by an earlier, failed or unrelated call); dependence on the environment (addresses, alignment, whether realloc moves, zero-sized allocations, which allocator is installed and when, thread order, re-entrancy); defects visible only to an observer at the right instant (transient writes, bytes beyond what is reported, out-parameters written on paths where they must not be); rarely used public API; dependence on HOW MUCH input or buffer is available beyond what the operation needs; changes at HEADER level (macros and inline functions of src/cbor/*.h, struct layouts and field types in data.h, configuration.h.in / CMake plumbing of the build-time constants); the seam between two API families (streaming decoder + builder callbacks, low-level encoders + serializer, construction API + decoder-built trees, cbor_copy of trees nobody builds by hand). It must be DIFFERENT IN MECHANISM from the changes that already exist for that property.\n")
        t.append(" * The whole existing suite must still pass with the change (run it!).\n")
        t.append(" * Write a demonstration: a small C program (demo.c, linked against %s/_b/src/libcbor.a, headers in %s/src and %s/_b/src and %s/_b) or shell script that exits non-zero (printing FAIL and why) WITH the change and exits 0 (printing PASS) WITHOUT it. Verify both directions yourself.\n" % (wt, wt, wt, wt))
        t.append(" * Store for each change the directory %s/<ID>/ (e.g. %s/%s-%d%s/) containing: patch.diff (output of `git -C %s diff` for that change ALONE, relative to the unchanged HEAD), demo.c (or demo.sh), and meta.json with keys: \"property\", \"summary\" (what was changed, file/function, and why it breaks the property), \"needs\" (what it takes to manifest), \"demo_build\" (exact shell command building the demo, absolute paths), \"demo_run\" (exact command running it, absolute paths), \"ran\" (what you ran and observed, both directions).\n" % (out, out, ids[0], wave, "" if per == 1 else "a", wt))
        t.append(" * After storing a change, revert the worktree to the unchanged HEAD (git -C %s checkout -- .) before starting on the next one, so every patch.diff applies to the unchanged tree on its own.\n" % wt)
        t.append("When finished leave the worktree unchanged (checked out clean) and reply with a short list: id, one-line summary, and whether all validations passed.\n\nThe properties:\n\n")
        for i in ids:
            t.append(ptext(P[i], style) + "\n")
        open(os.path.join(root, "prompt_%s.txt" % tag), "w").write("".join(t))
        print(os.path.join(root, "prompt_%s.txt" % tag))

if __name__ == "__main__":
    main()
