#!/usr/bin/env python3
"""Re-run the property's own quick check against every stored seeded change (detection regression).
usage: EVAL_REPO=<scratch worktree of /repo> seedregress.py <shard> <nshards> [outfile]
Each patch is applied to the scratch worktree only; evidence files are saved and restored."""
import json, os, sys, glob, subprocess, time
VERIF = os.path.dirname(os.path.dirname(os.path.abspath(__file__)))
sys.path.insert(0, os.path.join(VERIF, "tools"))
shard, n = int(sys.argv[1]), int(sys.argv[2])
out = sys.argv[3] if len(sys.argv) > 3 else os.path.join(VERIF, "seeded", "regress_%d.json" % shard)
dirs = sorted(d for d in glob.glob(os.path.join(VERIF, "seeded", "C*-*")) if os.path.exists(os.path.join(d, "patch.diff")))
res = json.load(open(out)) if os.path.exists(out) else {}
for i, d in enumerate(dirs):
    name = os.path.basename(d)
    if i % n != shard or name in res:
        continue
    t = time.time()
    p = subprocess.run([sys.executable, os.path.join(VERIF, "tools", "seedeval.py"), "detect", d], stdout=subprocess.PIPE, stderr=subprocess.STDOUT, text=True, env=os.environ)
    try:
        r = json.loads(p.stdout[p.stdout.index("{"):])
    except Exception:
        r = {"error": p.stdout[-400:]}
    pid = name.split("-")[0]
    x = r.get(pid, {}) if isinstance(r, dict) else {}
    res[name] = {"exit": x.get("exit"), "violation": (x.get("violations") or [""])[0], "stream": (x.get("replay") or {}).get("stream"),
                 "case": (x.get("replay") or {}).get("case", "")[:120], "error": r.get("error") if isinstance(r, dict) else None, "wall_s": round(time.time() - t, 1)}
    print(name, res[name]["exit"], res[name]["stream"], res[name]["violation"][-40:], flush=True)
    json.dump(res, open(out, "w"), indent=1)
