#!/usr/bin/env python3
"""Store validated seeded changes under seeded/<id>/ (patch.diff, the demonstration, meta.json) and merge the per-environment
results files.   usage: storeseeds.py <out-root> <results-name> <env-verif-dir> [<env-verif-dir> ...]"""
import glob, json, os, shutil, subprocess, sys
VERIF = os.path.dirname(os.path.dirname(os.path.abspath(__file__)))
root, rname = sys.argv[1], sys.argv[2]
merged = {}
for env in sys.argv[3:]:
    p = os.path.join(env, "seeded", rname)
    if os.path.exists(p):
        merged.update(json.load(open(p)))
base = subprocess.run(["git", "-C", "/repo", "rev-parse", "--short", "HEAD"], stdout=subprocess.PIPE, text=True).stdout.strip()
for pdir in sorted(glob.glob(os.path.join(root, "out_*", "C*-*"))):
    name = os.path.basename(pdir)
    r = merged.get(name)
    if not r or not r["validate"].get("valid"):
        print("skip (not validated):", name); continue
    dst = os.path.join(VERIF, "seeded", name)
    os.makedirs(dst, exist_ok=True)
    for f in ("patch.diff", "demo.c", "demo.sh"):
        if os.path.exists(os.path.join(pdir, f)):
            shutil.copy(os.path.join(pdir, f), dst)
    meta = json.load(open(os.path.join(pdir, "meta.json")))
    meta["breaks_property"] = meta.get("property")
    meta["base_commit"] = base
    meta["confirmed_by_me"] = {k: r["validate"].get(k) for k in ("builds", "suite_passes", "demo_fails_with_change", "demo_passes_without", "valid")}
    meta["what_i_ran"] = ("tools/seedeval.py validate (scratch worktree: git apply; cmake -G Ninja -DWITH_TESTS=ON RelWithDebInfo build; ctest -j8: all 26 programs pass; "
                          "demo built and run with the change: fails; change reverted, rebuilt, demo run again: passes) and tools/seedeval.py detect against a scratch "
                          "worktree of /repo (EVAL_REPO; git apply; ./check <property>; git checkout -- .)")
    json.dump(meta, open(os.path.join(dst, "meta.json"), "w"), indent=1)
json.dump(merged, open(os.path.join(VERIF, "seeded", rname), "w"), indent=1, sort_keys=True)
print("stored", len(merged), "results in seeded/" + rname)
