#!/usr/bin/env python3
"""Robustness / sensitivity test of the leaf-function bridges (translator/leaf.py, dispatch.py,
tables.py, inventory.py; coq/theories/Bridge_leaf_*.v, Bridge_dispatch.v, Bridge_utf8d.v,
Bridge_inventory.v, Bridge_config.v): apply an edit to a PRIVATE copy of the library, regenerate
coq/gen with setup.sh's snippet, `make -k` the bridge files, restore the library, print a table
edit x bridge file -> pass / degraded / FAIL.

    VERIF_REPO=/path/to/private/libcbor tools/leaf_mutation.py [--harm] [--edits] [id-prefix ...]

H = one of the 48 independent harmless refactorings (seeded/harmless/out_A..F: patch.diff applied alone);
P = behaviour-preserving rewrite written for this test; for both every bridge file must still pass
(`pass`) or the function must have left the supported subset cleanly (`degraded`: the translator
records translator_unsupported:<function>, `g.. := fb..`, the fallback branch proves the lemma).
M = meaning-changing edit: the bridge file named in the entry must FAIL.
Never run this against /repo: it edits the working tree and restores it with `git checkout -- .`."""
import subprocess, sys, os, json, re, glob, time
REPO = os.environ.get("VERIF_REPO")
if not REPO or os.path.realpath(REPO) == "/repo":
    sys.exit("set VERIF_REPO to a private worktree of the library")
VERIF = os.path.dirname(os.path.dirname(os.path.abspath(__file__)))
COQ = os.path.join(VERIF, "coq")

REGEN = r"""
cd %s && python3 -c "
import sys; sys.path.insert(0,'.')
from vlib import build, runner
from translator import run
with build.Workdir() as wd:
    cfg = build.configure(wd)
    hx = build.build_hx(wd, cfg, 'rel')
    sizes = {k: v for k, v in runner.hx_config(hx).items() if k.startswith('sizeof_')}
    r = run.regenerate(cfg, sizes)
    import json
    print('UNSUPPORTED ' + json.dumps(r['unsupported']))
"
""" % VERIF

BRIDGES = ["Bridge_leaf_mem", "Bridge_leaf_enc", "Bridge_leaf_dec", "Bridge_leaf_alloc", "Bridge_leaf_float",
           "Bridge_leaf_ehalf", "Bridge_leaf_dechalf", "Bridge_leaf_utf8", "Bridge_leaf_stack",
           "Bridge_dispatch", "Bridge_utf8d", "Bridge_inventory", "Bridge_config"]
SHORT = {"Bridge_leaf_mem": "mem", "Bridge_leaf_enc": "enc", "Bridge_leaf_dec": "dec", "Bridge_leaf_alloc": "alloc",
         "Bridge_leaf_float": "float", "Bridge_leaf_ehalf": "ehalf", "Bridge_leaf_dechalf": "dhalf",
         "Bridge_leaf_utf8": "utf8", "Bridge_leaf_stack": "stack", "Bridge_dispatch": "disp", "Bridge_utf8d": "tbl",
         "Bridge_inventory": "inv", "Bridge_config": "conf"}
# Bridge_leaf_ehalf is the conjunction of the three class files
PARTS = {"Bridge_leaf_ehalf": ["Bridge_leaf_ehalf1", "Bridge_leaf_ehalf2", "Bridge_leaf_ehalf3", "Bridge_leaf_ehalf"]}

def owner(fn):
    """bridge file that carries the lemma of a translated function"""
    if fn in ("_cbor_highest_bit", "_cbor_safe_to_multiply", "_cbor_safe_to_add", "_cbor_safe_signaling_add", "_cbor_encoded_header_size"):
        return "Bridge_leaf_mem"
    if fn in ("_cbor_alloc_multiple", "_cbor_realloc_multiple"):
        return "Bridge_leaf_alloc"
    if fn in ("cbor_encode_single", "cbor_encode_double"):
        return "Bridge_leaf_float"
    if fn == "cbor_encode_half":
        return "Bridge_leaf_ehalf"
    if fn == "_cbor_decode_half":
        return "Bridge_leaf_dechalf"
    if fn.startswith("_cbor_unicode"):
        return "Bridge_leaf_utf8"
    if fn == "_cbor_stack_push":
        return "Bridge_leaf_stack"
    if fn.startswith("_cbor_load_uint") or fn == "claim_bytes":
        return "Bridge_leaf_dec"
    if fn.startswith("_cbor_encode_") or fn.startswith("cbor_encode_"):
        return "Bridge_leaf_enc"
    if fn.startswith("dispatch") or fn.startswith("case") or fn.startswith("switch"):
        return "Bridge_dispatch"
    if fn.startswith("utf8d"):
        return "Bridge_utf8d"
    return None

def sh(cmd, **kw):
    return subprocess.run(cmd, shell=True, stdout=subprocess.PIPE, stderr=subprocess.STDOUT, text=True, **kw)

HEAD = subprocess.run("git -C %s rev-parse HEAD" % REPO, shell=True, stdout=subprocess.PIPE, text=True).stdout.strip()
OLD_BASE = "63baa17"     # the head the harmless patches were written against (RC-8, RF-6 do not apply to the later fix commit)

def restore():
    sh("git -C %s checkout -q -f --detach %s && git -C %s checkout -- . && git -C %s clean -fdq src" % (REPO, HEAD, REPO, REPO))

def apply_entry(e):
    restore()
    if e["kind"] == "H":
        p = sh("git -C %s apply %s" % (REPO, e["patch"]))
        if p.returncode != 0:
            # written against the older head: test it there
            sh("git -C %s checkout -q -f --detach %s" % (REPO, OLD_BASE))
            p = sh("git -C %s apply %s" % (REPO, e["patch"]))
            if p.returncode != 0:
                return "patch does not apply: " + p.stdout[-300:]
            e["base"] = OLD_BASE
        return None
    for rel, old, new in e["edits"]:
        f = os.path.join(REPO, rel)
        s = open(f).read()
        if s.count(old) < 1:
            return "pattern not found in %s: %s" % (rel, old[:60])
        open(f, "w").write(s.replace(old, new, 1))
    return None

def run_entry(e, targets):
    err = apply_entry(e)
    if err:
        restore()
        return {"error": err}
    t0 = time.time()
    r = sh(REGEN, timeout=900)
    m = re.search(r"^UNSUPPORTED (.*)$", r.stdout, re.M)
    if not m:
        restore()
        return {"error": "regeneration failed: " + r.stdout[-600:]}
    uns = json.loads(m.group(1))
    files = []
    for t in targets:
        files += PARTS.get(t, [t])
    vo = " ".join("theories/%s.vo" % f for f in files)
    mk = sh("cd %s && timeout 3000 make -k -j16 %s" % (COQ, vo))
    res = {}
    for t in targets:
        ok = all(sh("cd %s && make -q theories/%s.vo" % (COQ, f)).returncode == 0 for f in PARTS.get(t, [t]))
        if not ok:
            res[t] = "FAIL"
        else:
            deg = [u for u in uns if owner(u.split(":")[1].strip() if u.startswith("translator_unsupported:") else u) == t]
            res[t] = "degraded" if deg else "pass"
    restore()
    first_err = re.findall(r'File "\./(theories/[^"]+)", line (\d+)', mk.stdout)
    return {"res": res, "unsupported": uns, "errors": first_err[:4], "wall": time.time() - t0}

# ---------------------------------------------------------------------------------------------
def harm_entries():
    out = []
    for pat in (os.path.join(os.path.dirname(os.path.dirname(os.path.abspath(__file__))), "seeded", "harmless", "out_[A-F]", "R*-*"),):
        for d in sorted(glob.glob(pat)):
            p = os.path.join(d, "patch.diff")
            if os.path.exists(p):
                out.append({"id": "H-" + os.path.basename(d), "kind": "H", "patch": p})
    return out

ENC, ENCS, LOAD, MEM, UNI, STK, STR, SER = ("src/cbor/encoding.c", "src/cbor/internal/encoders.c", "src/cbor/internal/loaders.c",
    "src/cbor/internal/memory_utils.c", "src/cbor/internal/unicode.c", "src/cbor/internal/stack.c", "src/cbor/streaming.c",
    "src/cbor/serialization.c")

def P(i, targets, *edits):
    return {"id": "P-" + i, "kind": "P", "targets": targets, "edits": list(edits)}
def M(i, target, *edits):
    return {"id": "M-" + i, "kind": "M", "targets": [target], "expect": target, "edits": list(edits)}

from leaf_mutation_edits import EDITS   # the textual edits (kept apart: long C fragments)

def main():
    args = [a for a in sys.argv[1:] if not a.startswith("--")]
    want_h = "--harm" in sys.argv or "--edits" not in sys.argv
    want_e = "--edits" in sys.argv or "--harm" not in sys.argv
    entries = (harm_entries() if want_h else []) + (EDITS(P, M) if want_e else [])
    if args:
        entries = [e for e in entries if any(e["id"].startswith(a) or e["id"][2:].startswith(a) for a in args)]
    rows, bad = [], 0
    for e in entries:
        targets = e.get("targets") or BRIDGES
        r = run_entry(e, targets)
        if "error" in r:
            print("%-34s ERROR %s" % (e["id"], r["error"])); bad += 1
            continue
        cells = []
        verdict = "ok"
        for b in BRIDGES:
            v = r["res"].get(b)
            cells.append("%-5s" % ({"pass": "pass", "degraded": "degr", "FAIL": "FAIL", None: "-"}[v]))
            if e["kind"] in ("H", "P") and v == "FAIL":
                verdict = "FALSE-ALARM"
        if e["kind"] == "M" and r["res"].get(e["expect"]) != "FAIL":
            verdict = "MISSED"
        if verdict != "ok":
            bad += 1
        rows.append((e["id"], cells, verdict, r))
        print("%-34s %s  %-11s %3.0fs %s%s %s" % (e["id"], " ".join(cells), verdict, r["wall"], "(on %s) " % e["base"] if e.get("base") else "",
              "" if not r["errors"] else "first error: %s:%s" % r["errors"][0],
              "" if not r["unsupported"] else "unsupported: " + "; ".join(u.replace("translator_unsupported:", "") for u in r["unsupported"])[:300]), flush=True)
    print("\n%-34s %s" % ("edit", " ".join("%-5s" % SHORT[b] for b in BRIDGES)))
    print("%d entries, %d not as required" % (len(entries), bad))
    # leave the tree and coq/gen as they were: regenerate from the restored library and rebuild
    restore()
    sh(REGEN, timeout=900)
    sh("cd %s && timeout 3000 make -k -j16 %s" % (COQ, " ".join("theories/%s.vo" % f for b in BRIDGES for f in PARTS.get(b, [b]))))
    return 1 if bad else 0

if __name__ == "__main__":
    sys.path.insert(0, os.path.dirname(os.path.abspath(__file__)))
    sys.exit(main())
