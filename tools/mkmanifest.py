#!/usr/bin/env python3
"""Regenerate MANIFEST.json from the registry (vlib/props.py) and tools/manifest_texts.json."""
import json, os, sys
ROOT = os.path.dirname(os.path.dirname(os.path.abspath(__file__)))
sys.path.insert(0, ROOT)
from vlib import props
texts = json.load(open(os.path.join(ROOT, "tools", "manifest_texts.json")))
all_ids = [json.loads(l)["id"] for l in open(os.path.join(ROOT, "properties.jsonl"))]
checks, na = [], []
for pid in all_ids:
    if pid in props.PROPS and pid in texts.get("checks", {}):
        t = texts["checks"][pid]
        checks.append({
            "property_id": pid,
            "quick_cmd": "./check %s --tier quick" % pid,
            "thorough_cmd": "./check %s --tier thorough" % pid,
            "evidence_file": "/verif/evidence/%s.json" % pid,
            "replay_cmd_template": "./check %s --replay {path}" % pid,
            "engine": "coq-proof+correspondence",
            "level_claimed": {"category": "proof", "text": t["text"], "design_ref": t.get("design_ref", "DESIGN.md section 6, " + pid)},
            "level_note": t["note"],
            "technique": t.get("technique", "machine-checked proof in Coq 8.16.1 about an executable Gallina model; model tied to /repo by differential correspondence runs and by translator-generated definitions with bridge lemmas"),
        })
    else:
        na.append({"property_id": pid, "reason": texts.get("not_applicable", {}).get(pid, "not yet claimed: the model, theorem and correspondence stream for this property are still being built (DESIGN.md section 10); the technique applies")})
m = {
    "version": 1,
    "setup_cmd": "./setup.sh",
    "hooks": {"guard": "PJK_LIBCBOR_VERIF", "enable": "checks compile /repo's sources with -DPJK_LIBCBOR_VERIF (no hook is needed so far; the guard is reserved)",
              "baseline_off_cmd": "cmake -G Ninja -S /repo -B /tmp/cbverif-baseline -DWITH_TESTS=ON -DCMAKE_BUILD_TYPE=RelWithDebInfo && cmake --build /tmp/cbverif-baseline && ctest --test-dir /tmp/cbverif-baseline -j8 --timeout 900; rc=$?; rm -rf /tmp/cbverif-baseline; exit $rc",
              "source_commits": [], "add_only": True},
    "engines": [{"name": "coq-proof+correspondence", "path": "/verif/check", "serves_properties": [c["property_id"] for c in checks],
                 "kind_free_text": "Coq 8.16.1 theorems over executable Gallina models (coq/theories, coq/props); translator (translator/*.py) regenerating coq/gen from /repo with bridge lemmas; OCaml-extracted model vs C harness differential runs"}],
    "checks": checks,
    "not_applicable": na,
    "notes": texts.get("notes", ""),
}
json.dump(m, open(os.path.join(ROOT, "MANIFEST.json"), "w"), indent=1)
print("claimed:", [c["property_id"] for c in checks])
