"""The textual edits of tools/leaf_mutation.py: P = behaviour-preserving (must pass or degrade),
M = meaning-changing (the named bridge file must fail)."""
def EDITS(P, M):
    L = []
    L.append(P('alloc-negated-guard-early-return', ['Bridge_leaf_alloc'], ('src/cbor/internal/memory_utils.c',
        'if (_cbor_safe_to_multiply(item_size, item_count)) {\n    return _cbor_malloc(item_size * item_count);\n  } else {\n    return NULL;\n  }',
        'if (!_cbor_safe_to_multiply(item_size, item_count)) return NULL;\n  return _cbor_malloc(item_size * item_count);')))
    L.append(P('alloc-temporary-swapped-args', ['Bridge_leaf_alloc'], ('src/cbor/internal/memory_utils.c',
        'if (_cbor_safe_to_multiply(item_size, item_count)) {\n    return _cbor_malloc(item_size * item_count);\n  } else {\n    return NULL;\n  }',
        'size_t n = item_count * item_size;\n  return _cbor_safe_to_multiply(item_count, item_size) ? _cbor_malloc(n) : NULL;')))
    L.append(P('realloc-true-swapped-product', ['Bridge_leaf_alloc'], ('src/cbor/internal/memory_utils.c',
        'if (_cbor_safe_to_multiply(item_size, item_count)) {\n    return _cbor_realloc(pointer, item_size * item_count);',
        'if (_cbor_safe_to_multiply(item_size, item_count) == true) {\n    return _cbor_realloc(pointer, item_count * item_size);')))
    L.append(P('realloc-unsupported-pointer-local-assigned-later', ['Bridge_leaf_alloc'], ('src/cbor/internal/memory_utils.c',
        'if (_cbor_safe_to_multiply(item_size, item_count)) {\n    return _cbor_realloc(pointer, item_size * item_count);\n  } else {\n    return NULL;\n  }',
        'void* p = NULL;\n  if (_cbor_safe_to_multiply(item_size, item_count) == true) p = _cbor_realloc(pointer, item_count * item_size);\n  return p;')))
    L.append(M('alloc-guard-dropped', 'Bridge_leaf_alloc', ('src/cbor/internal/memory_utils.c',
        'if (_cbor_safe_to_multiply(item_size, item_count)) {\n    return _cbor_malloc(',
        'if (1) {\n    return _cbor_malloc(')))
    L.append(M('alloc-1', 'Bridge_leaf_alloc', ('src/cbor/internal/memory_utils.c',
        'return _cbor_malloc(item_size * item_count);',
        'return _cbor_malloc(item_size * item_count + 1);')))
    L.append(M('realloc-size-only', 'Bridge_leaf_alloc', ('src/cbor/internal/memory_utils.c',
        'return _cbor_realloc(pointer, item_size * item_count);',
        'return _cbor_realloc(pointer, item_size);')))
    L.append(M('realloc-inverted-guard', 'Bridge_leaf_alloc', ('src/cbor/internal/memory_utils.c',
        'if (_cbor_safe_to_multiply(item_size, item_count)) {\n    return _cbor_realloc',
        'if (!_cbor_safe_to_multiply(item_size, item_count)) {\n    return _cbor_realloc')))
    L.append(M('alloc-guard-uses-safe-to-add', 'Bridge_leaf_alloc', ('src/cbor/internal/memory_utils.c',
        'if (_cbor_safe_to_multiply(item_size, item_count)) {\n    return _cbor_malloc(',
        'if (_cbor_safe_to_add(item_size, item_count)) {\n    return _cbor_malloc(')))
    L.append(M('alloc-32-bit-product', 'Bridge_leaf_alloc', ('src/cbor/internal/memory_utils.c',
        'return _cbor_malloc(item_size * item_count);',
        'return _cbor_malloc((uint32_t)(item_size * item_count));')))
    L.append(P('single-constant-folded-temp-negated-test', ['Bridge_leaf_float'], ('src/cbor/encoding.c',
        'if (isnan(value)) {\n    return _cbor_encode_uint32(0x7FC0 << 16, buffer, buffer_size, 0xE0);\n  }\n  // TODO: Broken on systems that do not use IEEE 754\n  return _cbor_encode_uint32(\n      ((union _cbor_float_helper){.as_float = value}).as_uint, buffer,\n      buffer_size, 0xE0);',
        'union _cbor_float_helper h = {.as_float = value};\n  uint32_t bits = h.as_uint;\n  if (!isnan(value)) return _cbor_encode_uint32(bits, buffer, buffer_size, 224);\n  return _cbor_encode_uint32(0x7FC00000u, buffer, buffer_size, 0xE0);')))
    L.append(P('single-on-the-bits', ['Bridge_leaf_float'], ('src/cbor/encoding.c',
        'if (isnan(value)) {\n    return _cbor_encode_uint32(0x7FC0 << 16, buffer, buffer_size, 0xE0);\n  }\n  // TODO: Broken on systems that do not use IEEE 754\n  return _cbor_encode_uint32(\n      ((union _cbor_float_helper){.as_float = value}).as_uint, buffer,\n      buffer_size, 0xE0);',
        'uint32_t bits = isnan(value) ? (0x7FC0u * 65536u) : ((union _cbor_float_helper){.as_float = value}).as_uint;\n  return _cbor_encode_uint32(bits, buffer, buffer_size, 0xE0);')))
    L.append(P('double-literal-constant-else-branch', ['Bridge_leaf_float'], ('src/cbor/encoding.c',
        'if (isnan(value)) {\n    return _cbor_encode_uint64((uint64_t)0x7FF8 << 48, buffer, buffer_size,\n                               0xE0);\n  }',
        'if (isnan(value)) {\n    return _cbor_encode_uint64(0x7FF8000000000000ull, buffer, buffer_size,\n                               0xE0);\n  } else')))
    L.append(M('single-wrong-NaN-constant', 'Bridge_leaf_float', ('src/cbor/encoding.c',
        '_cbor_encode_uint32(0x7FC0 << 16,',
        '_cbor_encode_uint32(0x7FC1 << 16,')))
    L.append(M('single-wrong-shift', 'Bridge_leaf_float', ('src/cbor/encoding.c',
        '_cbor_encode_uint32(0x7FC0 << 16,',
        '_cbor_encode_uint32(0x7FC0 << 15,')))
    L.append(M('single-NaN-canonicalisation-dropped', 'Bridge_leaf_float', ('src/cbor/encoding.c',
        'if (isnan(value)) {\n    return _cbor_encode_uint32(0x7FC0 << 16',
        'if (0) {\n    return _cbor_encode_uint32(0x7FC0 << 16')))
    L.append(M('single-wrong-major-offset', 'Bridge_leaf_float', ('src/cbor/encoding.c',
        'return _cbor_encode_uint32(0x7FC0 << 16, buffer, buffer_size, 0xE0);',
        'return _cbor_encode_uint32(0x7FC0 << 16, buffer, buffer_size, 0xC0);')))
    L.append(M('double-shift-47', 'Bridge_leaf_float', ('src/cbor/encoding.c',
        '(uint64_t)0x7FF8 << 48',
        '(uint64_t)0x7FF8 << 47')))
    L.append(M('double-missing-cast-int-shift-renders-0x7FF8-48-', 'Bridge_leaf_float', ('src/cbor/encoding.c',
        '(uint64_t)0x7FF8 << 48',
        '0x7FF0ull << 48')))
    L.append(M('double-uses-uint32-encoder', 'Bridge_leaf_float', ('src/cbor/encoding.c',
        'return _cbor_encode_uint64(\n      ((union _cbor_double_helper){.as_double = value}).as_uint, buffer,\n      buffer_size, 0xE0);',
        'return _cbor_encode_uint32(\n      ((union _cbor_double_helper){.as_double = value}).as_uint, buffer,\n      buffer_size, 0xE0);')))
    L.append(P('half-B1-exp-0xFE-mant-8192', ['Bridge_leaf_ehalf'], ('src/cbor/encoding.c',
        '  if (exp == 0xFF) {   /* Infinity or NaNs */',
        '  if (exp > 0xFE) {   /* Infinity or NaNs */')))
    L.append(P('half-B2-temporaries-for-sign-val-23-0xFF-mant-va', ['Bridge_leaf_ehalf'], ('src/cbor/encoding.c',
        '  uint8_t exp = (uint8_t)((val & 0x7F800000u) >>\n                          23u); /* 0b0111_1111_1000_0000_0000_0000_0000_0000 */\n  uint32_t mant =\n      val & 0x7FFFFFu; /* 0b0000_0000_0111_1111_1111_1111_1111_1111 */',
        '  uint8_t exp = (val >> 23) & 0xFF;\n  uint32_t mant = val % 8388608u;')))
    L.append(P('half-B3-reorder-if-chain-exp-0-first', ['Bridge_leaf_ehalf'], ('src/cbor/encoding.c',
        '  if (exp == 0xFF) {   /* Infinity or NaNs */\n    if (isnan(value)) {\n      // Note: Values of signaling NaNs are discarded. See `cbor_encode_single`.\n      res = (uint16_t)0x007e00;\n    } else {\n      // If the mantissa is non-zero, we have a NaN, but those are handled\n      // above. See\n      // https://en.wikipedia.org/wiki/Half-precision_floating-point_format\n      CBOR_ASSERT(mant == 0u);\n      res = (uint16_t)((val & 0x80000000u) >> 16u | 0x7C00u);\n    }\n  } else if (exp == 0x00) { /* Zeroes or subnorms */\n    res = (uint16_t)((val & 0x80000000u) >> 16u | mant >> 13u);\n  } else { /* Normal numbers */',
        '  if (exp == 0x00) { /* Zeroes or subnorms */\n    res = (uint16_t)((val & 0x80000000u) >> 16u | mant / 8192);\n  } else if (exp == 0xFF) {   /* Infinity or NaNs */\n    if (!isnan(value)) {\n      res = (uint16_t)(((val >> 16u) & 0x8000u) + 0x7C00u);\n    } else {\n      res = 0x7e00;\n    }\n  } else { /* Normal numbers */')))
    L.append(P('half-B4-int-logical-exp-no-int8-cast', ['Bridge_leaf_ehalf'], ('src/cbor/encoding.c',
        '    int8_t logical_exp = (int8_t)(exp - 127);',
        '    int logical_exp = exp - 127;')))
    L.append(M('half-M1-24-24', 'Bridge_leaf_ehalf', ('src/cbor/encoding.c',
        'if (logical_exp < -24) {',
        'if (logical_exp <= -24) {')))
    L.append(M('half-M2-mant-12-in-normal-branch', 'Bridge_leaf_ehalf', ('src/cbor/encoding.c',
        '                       (uint16_t)(mant >> 13u));',
        '                       (uint16_t)(mant >> 12u));')))
    L.append(M('half-M3-0x7C01', 'Bridge_leaf_ehalf', ('src/cbor/encoding.c',
        '>> 16u | 0x7C00u);',
        '>> 16u | 0x7C01u);')))
    L.append(M('half-M4-NaN-0x7e01', 'Bridge_leaf_ehalf', ('src/cbor/encoding.c',
        'res = (uint16_t)0x007e00;',
        'res = (uint16_t)0x007e01;')))
    L.append(M('half-M5-bias-16', 'Bridge_leaf_ehalf', ('src/cbor/encoding.c',
        '((((uint8_t)logical_exp) + 15u) << 10u)',
        '((((uint8_t)logical_exp) + 16u) << 10u)')))
    L.append(M('half-M6-shift-logical-exp-1', 'Bridge_leaf_ehalf', ('src/cbor/encoding.c',
        '(mant >> (-logical_exp - 2))',
        '(mant >> (-logical_exp - 1))')))
    L.append(M('half-M7-exponent-mask-0x7F000000', 'Bridge_leaf_ehalf', ('src/cbor/encoding.c',
        '(val & 0x7F800000u)',
        '(val & 0x7F000000u)')))
    L.append(M('half-M8-rounding-dropped', 'Bridge_leaf_ehalf', ('src/cbor/encoding.c',
        '(uint16_t)(((mant >> (-logical_exp - 2)) + 1) >>\n                        1));',
        '(uint16_t)(((mant >> (-logical_exp - 2))) >>\n                        1));')))
    L.append(M('half-M9-14-15', 'Bridge_leaf_ehalf', ('src/cbor/encoding.c',
        '} else if (logical_exp < -14) {',
        '} else if (logical_exp < -15) {')))
    L.append(M('half-M10-sign-15-in-subnormal-input-branch', 'Bridge_leaf_ehalf', ('src/cbor/encoding.c',
        'res = (uint16_t)((val & 0x80000000u) >> 16u | mant >> 13u);',
        'res = (uint16_t)((val & 0x80000000u) >> 15u | mant >> 13u);')))
    L.append(P('hb-RB-1-for-loop-bit-declared-without-initialise', ['Bridge_leaf_mem', 'Bridge_leaf_alloc'], ('src/cbor/internal/memory_utils.c',
        '  size_t bit = 0;\n  while (number != 0) {\n    bit++;\n    number >>= 1;\n  }\n\n  return bit;',
        '  size_t bit;\n  for (bit = 0; number != 0; number >>= 1) {\n    bit++;\n  }\n  return bit;')))
    L.append(P('hb-while-number-number-2-bit', ['Bridge_leaf_mem', 'Bridge_leaf_alloc'], ('src/cbor/internal/memory_utils.c',
        '  size_t bit = 0;\n  while (number != 0) {\n    bit++;\n    number >>= 1;\n  }\n\n  return bit;',
        '  size_t bit = 0;\n  while (number) { number /= 2; ++bit; }\n  return bit;')))
    L.append(P('hb-for-with-declaration-1-0', ['Bridge_leaf_mem', 'Bridge_leaf_alloc'], ('src/cbor/internal/memory_utils.c',
        '  size_t bit = 0;\n  while (number != 0) {\n    bit++;\n    number >>= 1;\n  }\n\n  return bit;',
        '  size_t bit = 0;\n  for (; number > 0; bit += 1) number = number >> 1;\n  return bit;')))
    L.append(P('hb-renamed-variables-order-swaps-count-n-n-count', ['Bridge_leaf_mem', 'Bridge_leaf_alloc'], ('src/cbor/internal/memory_utils.c',
        '  size_t bit = 0;\n  while (number != 0) {\n    bit++;\n    number >>= 1;\n  }\n\n  return bit;',
        '  size_t zbits = 0;\n  while (number != 0) {\n    zbits++;\n    number >>= 1;\n  }\n  return zbits;')))
    L.append(M('hb-number-2', 'Bridge_leaf_mem', ('src/cbor/internal/memory_utils.c',
        '  size_t bit = 0;\n  while (number != 0) {\n    bit++;\n    number >>= 1;\n  }\n\n  return bit;',
        '  size_t bit = 0;\n  while (number != 0) {\n    bit++;\n    number >>= 2;\n  }\n\n  return bit;')))
    L.append(M('hb-bit-starts-at-1', 'Bridge_leaf_mem', ('src/cbor/internal/memory_utils.c',
        '  size_t bit = 0;\n  while (number != 0) {\n    bit++;\n    number >>= 1;\n  }\n\n  return bit;',
        '  size_t bit = 1;\n  while (number != 0) {\n    bit++;\n    number >>= 1;\n  }\n\n  return bit;')))
    L.append(M('hb-number-1', 'Bridge_leaf_mem', ('src/cbor/internal/memory_utils.c',
        '  size_t bit = 0;\n  while (number != 0) {\n    bit++;\n    number >>= 1;\n  }\n\n  return bit;',
        '  size_t bit = 0;\n  while (number > 1) {\n    bit++;\n    number >>= 1;\n  }\n\n  return bit;')))
    L.append(P('hb-unsupported-read-before-write', ['Bridge_leaf_mem', 'Bridge_leaf_alloc'], ('src/cbor/internal/memory_utils.c',
        '  size_t bit = 0;\n  while (number != 0) {\n    bit++;\n    number >>= 1;\n  }\n\n  return bit;',
        '  size_t bit;\n  while (number != 0) {\n    bit++;\n    number >>= 1;\n  }\n  return bit;')))
    L.append(P('enc16-and', ['Bridge_leaf_enc'], ('src/cbor/internal/encoders.c',
        '  buffer[1] = (unsigned char)(value >> 8);\n  buffer[2] = (unsigned char)value;\n#endif\n\n  return 3;',
        '  buffer[1] = (unsigned char)(value / 256);\n  buffer[2] = (unsigned char)(value % 256);\n#endif\n\n  return 3;')))
    L.append(P('enc32-value-65536-0xFF-0xFF', ['Bridge_leaf_enc'], ('src/cbor/internal/encoders.c',
        '  buffer[1] = (unsigned char)(value >> 24);\n  buffer[2] = (unsigned char)(value >> 16);\n  buffer[3] = (unsigned char)(value >> 8);\n  buffer[4] = (unsigned char)value;',
        '  buffer[1] = (unsigned char)(value / 16777216);\n  buffer[2] = (value / 65536) & 0xFF;\n  buffer[3] = (value >> 8) & 0xFFu;\n  buffer[4] = value % 256;')))
    L.append(M('enc32-65535', 'Bridge_leaf_enc', ('src/cbor/internal/encoders.c',
        '  buffer[2] = (unsigned char)(value >> 16);\n  buffer[3] = (unsigned char)(value >> 8);\n  buffer[4] = (unsigned char)value;',
        '  buffer[2] = (value / 65535) & 0xFF;\n  buffer[3] = (unsigned char)(value >> 8);\n  buffer[4] = (unsigned char)value;')))
    L.append(M('enc32-0x7F', 'Bridge_leaf_enc', ('src/cbor/internal/encoders.c',
        '  buffer[2] = (unsigned char)(value >> 16);\n  buffer[3] = (unsigned char)(value >> 8);\n  buffer[4] = (unsigned char)value;',
        '  buffer[2] = (value >> 16) & 0x7F;\n  buffer[3] = (unsigned char)(value >> 8);\n  buffer[4] = (unsigned char)value;')))
    L.append(P('load16-source-n-and', ['Bridge_leaf_dec'], ('src/cbor/internal/loaders.c',
        'return ((uint16_t) * (source + 0) << 8) + (uint8_t) * (source + 1);',
        'return ((uint16_t)source[0] << 8) | source[1];')))
    L.append(P('load16-source-1-1-256', ['Bridge_leaf_dec'], ('src/cbor/internal/loaders.c',
        'return ((uint16_t) * (source + 0) << 8) + (uint8_t) * (source + 1);',
        'return (uint16_t)(source[1 - 1] * 256 + *(source + (0 + 1)));')))
    L.append(P('load32-and-source-n', ['Bridge_leaf_dec'], ('src/cbor/internal/loaders.c',
        'return ((uint32_t) * (source + 0) << 0x18) +\n         ((uint32_t) * (source + 1) << 0x10) +\n         ((uint16_t) * (source + 2) << 0x08) + (uint8_t) * (source + 3);',
        'return ((uint32_t)source[0] << 24) | ((uint32_t)source[1] << 16) |\n         ((uint32_t)source[2] << 8) | (uint32_t)source[3];')))
    L.append(P('load64-nested-source-n', ['Bridge_leaf_dec'], ('src/cbor/internal/loaders.c',
        'return ((uint64_t) * (source + 0) << 0x38) +\n         ((uint64_t) * (source + 1) << 0x30) +\n         ((uint64_t) * (source + 2) << 0x28) +\n         ((uint64_t) * (source + 3) << 0x20) +\n         ((uint32_t) * (source + 4) << 0x18) +\n         ((uint32_t) * (source + 5) << 0x10) +\n         ((uint16_t) * (source + 6) << 0x08) + (uint8_t) * (source + 7);',
        'return ((uint64_t)source[0] << 56) | ((uint64_t)source[1] << 48) |\n         ((uint64_t)source[2] << 40) | ((uint64_t)source[3] << 32) |\n         ((uint64_t)source[4] << 24) | ((uint64_t)source[5] << 16) |\n         ((uint64_t)source[6] << 8) | (uint64_t)source[7];')))
    L.append(M('load32-source-2-twice', 'Bridge_leaf_dec', ('src/cbor/internal/loaders.c',
        'return ((uint32_t) * (source + 0) << 0x18) +\n         ((uint32_t) * (source + 1) << 0x10) +\n         ((uint16_t) * (source + 2) << 0x08) + (uint8_t) * (source + 3);',
        'return ((uint32_t)source[0] << 24) | ((uint32_t)source[1] << 16) |\n         ((uint32_t)source[2] << 8) | (uint32_t)source[2];')))
    L.append(M('load32-overlapping-7', 'Bridge_leaf_dec', ('src/cbor/internal/loaders.c',
        'return ((uint32_t) * (source + 0) << 0x18) +\n         ((uint32_t) * (source + 1) << 0x10) +\n         ((uint16_t) * (source + 2) << 0x08) + (uint8_t) * (source + 3);',
        'return ((uint32_t)source[0] << 24) | ((uint32_t)source[1] << 16) |\n         ((uint32_t)source[2] << 7) | (uint32_t)source[3];')))
    L.append(M('load16-0x7f-mask', 'Bridge_leaf_dec', ('src/cbor/internal/loaders.c',
        'return ((uint16_t) * (source + 0) << 8) + (uint8_t) * (source + 1);',
        'return ((uint16_t)source[0] << 8) | (source[1] & 0x7f);')))
    L.append(P('decode-D1-64-64', ['Bridge_leaf_utf8'], ('src/cbor/internal/unicode.c',
        '(byte & 0x3fu) | (*codep << 6)',
        '(byte % 64u) + (*codep * 64u)')))
    L.append(P('decode-D2-temporary-for-state-16-s', ['Bridge_leaf_utf8'], ('src/cbor/internal/unicode.c',
        '  *state = utf8d[256 + *state * 16 + type];\n  return *state;',
        '  uint32_t s = *state;\n  uint32_t next = utf8d[type + 16 * s + 256];\n  *state = next;\n  return next;')))
    L.append(M('decode-D3-255', 'Bridge_leaf_utf8', ('src/cbor/internal/unicode.c',
        'utf8d[256 + *state * 16 + type]',
        'utf8d[255 + *state * 16 + type]')))
    L.append(M('decode-D4-8', 'Bridge_leaf_utf8', ('src/cbor/internal/unicode.c',
        'utf8d[256 + *state * 16 + type]',
        'utf8d[256 + *state * 8 + type]')))
    L.append(M('decode-D5-returns-old-state', 'Bridge_leaf_utf8', ('src/cbor/internal/unicode.c',
        '  *state = utf8d[256 + *state * 16 + type];\n  return *state;',
        '  uint32_t old = *state;\n  *state = utf8d[256 + *state * 16 + type];\n  return old;')))
    L.append(M('decode-D6-undefined-shift-0xff-type-32', 'Bridge_leaf_utf8', ('src/cbor/internal/unicode.c',
        '(0xff >> type) & (byte)',
        '(0xff >> (type + 32)) & (byte)')))
    L.append(P('count-C1-reject-test-first-separate-ifs', ['Bridge_leaf_utf8'], ('src/cbor/internal/unicode.c',
        '    if (res == UTF8_ACCEPT) {\n      count++;\n    } else if (res == UTF8_REJECT) {\n      goto error;\n    }',
        '    if (res == UTF8_REJECT) goto error;\n    if (res == UTF8_ACCEPT) count += 1;')))
    L.append(P('count-C2-while-loop', ['Bridge_leaf_utf8'], ('src/cbor/internal/unicode.c',
        '  for (; pos < source_length; pos++) {\n    res = _cbor_unicode_decode(&state, &codepoint, source[pos]);\n\n    if (res == UTF8_ACCEPT) {\n      count++;\n    } else if (res == UTF8_REJECT) {\n      goto error;\n    }\n  }',
        '  while (pos < source_length) {\n    res = _cbor_unicode_decode(&state, &codepoint, source[pos]);\n    if (res == UTF8_ACCEPT) {\n      count++;\n    } else if (!(res != UTF8_REJECT)) {\n      goto error;\n    }\n    pos++;\n  }')))
    L.append(P('count-shape-change-degrades-no-res-variable', ['Bridge_leaf_utf8'], ('src/cbor/internal/unicode.c',
        '    res = _cbor_unicode_decode(&state, &codepoint, source[pos]);\n\n    if (res == UTF8_ACCEPT) {\n      count++;\n    } else if (res == UTF8_REJECT) {\n      goto error;\n    }',
        '    if (_cbor_unicode_decode(&state, &codepoint, source[pos]) == UTF8_ACCEPT) {\n      count++;\n    } else if (state == UTF8_REJECT) {\n      goto error;\n    }')))
    L.append(M('count-C4-pos-source-length', 'Bridge_leaf_utf8', ('src/cbor/internal/unicode.c',
        'for (; pos < source_length; pos++)',
        'for (; pos <= source_length; pos++)')))
    L.append(M('count-C5-unfinished-sequence-accepted', 'Bridge_leaf_utf8', ('src/cbor/internal/unicode.c',
        '  if (state != UTF8_ACCEPT) goto error;',
        '  ;')))
    L.append(M('count-C6-counts-every-non-reject-byte', 'Bridge_leaf_utf8', ('src/cbor/internal/unicode.c',
        '    if (res == UTF8_ACCEPT) {\n      count++;\n    } else if (res == UTF8_REJECT) {\n      goto error;\n    }',
        '    if (res != UTF8_REJECT) {\n      count++;\n    } else {\n      goto error;\n    }')))
    L.append(M('count-C7-return-count-1', 'Bridge_leaf_utf8', ('src/cbor/internal/unicode.c',
        '  return count;',
        '  return count + 1;')))
    L.append(M('count-C8-starts-at-pos-1', 'Bridge_leaf_utf8', ('src/cbor/internal/unicode.c',
        'size_t pos = 0, count = 0;',
        'size_t pos = 1, count = 0;')))
    L.append(P('dhalf-256-mask-then-shift-reordered-cases-renorm', ['Bridge_leaf_dechalf'], ('src/cbor/internal/loaders.c',
        '  int half = (halfp[0] << 8) + halfp[1];\n  int exp = (half >> 10) & 0x1f;\n  int mant = half & 0x3ff;\n  double val;\n  if (exp == 0)\n    val = ldexp(mant, -24);\n  else if (exp != 31)\n    val = ldexp(mant + 1024, exp - 25);\n  else\n    val = mant == 0 ? INFINITY : NAN;',
        '  int half = halfp[0] * 256 | halfp[1];\n  int exp = (half & 0x7c00) >> 10;\n  int mant = half % 1024;\n  double val;\n  if (exp == 31)\n    val = mant ? NAN : INFINITY;\n  else if (exp > 0)\n    val = ldexp((mant | 1024) * 2, exp - 26);\n  else\n    val = ldexp(mant, -24);')))
    L.append(P('dhalf-sign-applied-per-branch-via-local', ['Bridge_leaf_dechalf'], ('src/cbor/internal/loaders.c',
        '  return (float)(half & 0x8000 ? -val : val);',
        '  int neg = (half >> 15) & 1;\n  if (neg) val = -val;\n  return (float)val;')))
    L.append(M('dhalf-25', 'Bridge_leaf_dechalf', ('src/cbor/internal/loaders.c',
        'val = ldexp(mant, -24);',
        'val = ldexp(mant, -25);')))
    L.append(M('dhalf-exp-24', 'Bridge_leaf_dechalf', ('src/cbor/internal/loaders.c',
        'ldexp(mant + 1024, exp - 25)',
        'ldexp(mant + 1024, exp - 24)')))
    L.append(M('dhalf-mant-1023', 'Bridge_leaf_dechalf', ('src/cbor/internal/loaders.c',
        'ldexp(mant + 1024, exp - 25)',
        'ldexp(mant + 1023, exp - 25)')))
    L.append(M('dhalf-exp-30', 'Bridge_leaf_dechalf', ('src/cbor/internal/loaders.c',
        'else if (exp != 31)',
        'else if (exp != 30)')))
    L.append(M('dhalf-sign-mask-0x4000', 'Bridge_leaf_dechalf', ('src/cbor/internal/loaders.c',
        'half & 0x8000 ? -val : val',
        'half & 0x4000 ? -val : val')))
    L.append(M('dhalf-INFINITY-NAN-swapped', 'Bridge_leaf_dechalf', ('src/cbor/internal/loaders.c',
        'mant == 0 ? INFINITY : NAN',
        'mant == 0 ? NAN : INFINITY')))
    L.append(M('dhalf-0xf', 'Bridge_leaf_dechalf', ('src/cbor/internal/loaders.c',
        '(half >> 10) & 0x1f',
        '(half >> 10) & 0xf')))
    L.append(P('dhalf-unsupported-arithmetic-on-doubles', ['Bridge_leaf_dechalf'], ('src/cbor/internal/loaders.c',
        'val = ldexp(mant, -24);',
        'val = mant * 5.9604644775390625e-8;')))
    L.append(P('push-new-top-1-reordered-updates', ['Bridge_leaf_stack'], ('src/cbor/internal/stack.c',
        '  if (stack->size == CBOR_MAX_STACK_SIZE) return NULL;\n  struct _cbor_stack_record* new_top =\n      _cbor_malloc(sizeof(struct _cbor_stack_record));\n  if (new_top == NULL) return NULL;\n\n  *new_top = (struct _cbor_stack_record){stack->top, item, subitems};\n  stack->top = new_top;\n  stack->size++;\n  return new_top;',
        '  if (stack->size >= CBOR_MAX_STACK_SIZE) return NULL;\n  struct _cbor_stack_record* new_top =\n      _cbor_malloc(sizeof(struct _cbor_stack_record));\n  if (!new_top) return NULL;\n\n  stack->size += 1;\n  new_top->lower = stack->top;\n  new_top->item = item;\n  new_top->subitems = subitems;\n  stack->top = new_top;\n  return new_top;')))
    L.append(P('push-nested-if-1-size', ['Bridge_leaf_stack'], ('src/cbor/internal/stack.c',
        '  if (stack->size == CBOR_MAX_STACK_SIZE) return NULL;',
        '  if (!(stack->size < CBOR_MAX_STACK_SIZE)) { return NULL; }')))
    L.append(M('push-MAX-1', 'Bridge_leaf_stack', ('src/cbor/internal/stack.c',
        'stack->size == CBOR_MAX_STACK_SIZE',
        'stack->size == CBOR_MAX_STACK_SIZE - 1')))
    L.append(M('push-MAX', 'Bridge_leaf_stack', ('src/cbor/internal/stack.c',
        'stack->size == CBOR_MAX_STACK_SIZE',
        'stack->size > CBOR_MAX_STACK_SIZE')))
    L.append(M('push-size-2', 'Bridge_leaf_stack', ('src/cbor/internal/stack.c',
        '  stack->size++;',
        '  stack->size += 2;')))
    L.append(M('push-size-not-updated', 'Bridge_leaf_stack', ('src/cbor/internal/stack.c',
        '  stack->size++;',
        '  ;')))
    L.append(M('push-request-twice-the-size', 'Bridge_leaf_stack', ('src/cbor/internal/stack.c',
        '_cbor_malloc(sizeof(struct _cbor_stack_record));',
        '_cbor_malloc(2 * sizeof(struct _cbor_stack_record));')))
    L.append(M('push-NULL-check-dropped', 'Bridge_leaf_stack', ('src/cbor/internal/stack.c',
        '  if (new_top == NULL) return NULL;',
        '  ;')))
    L.append(M('push-guard-dropped', 'Bridge_leaf_stack', ('src/cbor/internal/stack.c',
        '  if (stack->size == CBOR_MAX_STACK_SIZE) return NULL;',
        '  ;')))
    L.append(P('push-unsupported-second-allocation', ['Bridge_leaf_stack'], ('src/cbor/internal/stack.c',
        '  if (new_top == NULL) return NULL;',
        '  if (new_top == NULL) return NULL;\n  void* extra = _cbor_malloc(1);')))

    # ---- robustness pass: loop state shape, helper functions, non-tail encoder calls ----
    COUNT_LOOP = '  uint32_t codepoint, state = UTF8_ACCEPT, res;\n  size_t pos = 0, count = 0;\n\n  for (; pos < source_length; pos++) {\n    res = _cbor_unicode_decode(&state, &codepoint, source[pos]);\n\n    if (res == UTF8_ACCEPT) {\n      count++;\n    } else if (res == UTF8_REJECT) {\n      goto error;\n    }\n  }\n'
    L.append(P('count-extra-loop-carried-local', ['Bridge_leaf_utf8'], ('src/cbor/internal/unicode.c', COUNT_LOOP, """  uint32_t codepoint, state = UTF8_ACCEPT, res;
  size_t pos = 0, count = 0, bytes_seen = 0;

  for (; pos < source_length; pos++) {
    res = _cbor_unicode_decode(&state, &codepoint, source[pos]);
    bytes_seen += 1;

    if (res == UTF8_ACCEPT) {
      count++;
    } else if (res == UTF8_REJECT) {
      goto error;
    }
  }
""")))
    L.append(P('count-res-local-to-the-body', ['Bridge_leaf_utf8'], ('src/cbor/internal/unicode.c', COUNT_LOOP, """  uint32_t codepoint, state = UTF8_ACCEPT;
  size_t pos = 0, count = 0;

  for (; pos < source_length; pos++) {
    const uint32_t res = _cbor_unicode_decode(&state, &codepoint, source[pos]);

    if (res == UTF8_ACCEPT) {
      count++;
    } else if (res == UTF8_REJECT) {
      goto error;
    }
  }
""")))
    L.append(P('count-renamed-locals', ['Bridge_leaf_utf8'], ('src/cbor/internal/unicode.c', COUNT_LOOP + """
  /* Unfinished multibyte codepoint */
  if (state != UTF8_ACCEPT) goto error;

  return count;

error:
  *status = (struct _cbor_unicode_status){.location = pos,""", """  uint32_t cp, dfa = UTF8_ACCEPT, r;
  size_t i = 0, n_chars = 0;

  for (; i < source_length; i++) {
    r = _cbor_unicode_decode(&dfa, &cp, source[i]);

    if (r == UTF8_ACCEPT) {
      n_chars++;
    } else if (r == UTF8_REJECT) {
      goto error;
    }
  }

  /* Unfinished multibyte codepoint */
  if (dfa != UTF8_ACCEPT) goto error;

  return n_chars;

error:
  *status = (struct _cbor_unicode_status){.location = i,""")))
    L.append(M('count-extra-local-and-off-by-one', 'Bridge_leaf_utf8', ('src/cbor/internal/unicode.c', COUNT_LOOP, """  uint32_t codepoint, state = UTF8_ACCEPT, res;
  size_t pos = 0, count = 0, bytes_seen = 0;

  for (; pos + 1 < source_length; pos++) {
    res = _cbor_unicode_decode(&state, &codepoint, source[pos]);
    bytes_seen += 1;

    if (res == UTF8_ACCEPT) {
      count++;
    } else if (res == UTF8_REJECT) {
      goto error;
    }
  }
""")))
    HB_OLD = '  size_t bit = 0;\n  while (number != 0) {\n    bit++;\n    number >>= 1;\n  }\n\n  return bit;'
    L.append(P('hb-extra-loop-carried-local', ['Bridge_leaf_mem', 'Bridge_leaf_alloc'], ('src/cbor/internal/memory_utils.c', HB_OLD, """  size_t bit = 0, rounds = 0;
  while (number != 0) {
    rounds += 2;
    bit++;
    number >>= 1;
  }
  return bit;""")))
    L.append(M('hb-extra-local-returned', 'Bridge_leaf_mem', ('src/cbor/internal/memory_utils.c', HB_OLD, """  size_t bit = 0, rounds = 0;
  while (number != 0) {
    rounds += 2;
    bit++;
    number >>= 1;
  }
  return rounds;""")))
    SINGLE_OLD = '  if (isnan(value)) {\n    return _cbor_encode_uint32(0x7FC0 << 16, buffer, buffer_size, 0xE0);\n  }\n  // TODO: Broken on systems that do not use IEEE 754\n  return _cbor_encode_uint32(\n      ((union _cbor_float_helper){.as_float = value}).as_uint, buffer,\n      buffer_size, 0xE0);'
    L.append(P('single-non-tail-call-early-return', ['Bridge_leaf_float'], ('src/cbor/encoding.c', SINGLE_OLD, """  uint32_t bits = ((union _cbor_float_helper){.as_float = value}).as_uint;
  if (isnan(value)) bits = 0x7FC00000u;
  size_t written = _cbor_encode_uint32(bits, buffer, buffer_size, 0xE0);
  return written;""")))
    L.append(P('single-inlined-stores', ['Bridge_leaf_float'], ('src/cbor/encoding.c', SINGLE_OLD, """  uint32_t bits = isnan(value) ? 0x7FC00000u : ((union _cbor_float_helper){.as_float = value}).as_uint;
  if (buffer_size < 5) return 0;
  buffer[0] = 0xFA;
  buffer[1] = (unsigned char)(bits >> 24);
  buffer[2] = (unsigned char)(bits >> 16);
  buffer[3] = (unsigned char)(bits >> 8);
  buffer[4] = (unsigned char)bits;
  return 5;""")))
    L.append(M('single-non-tail-call-wrong-constant', 'Bridge_leaf_float', ('src/cbor/encoding.c', SINGLE_OLD, """  uint32_t bits = ((union _cbor_float_helper){.as_float = value}).as_uint;
  if (isnan(value)) bits = 0x7FC00001u;
  size_t written = _cbor_encode_uint32(bits, buffer, buffer_size, 0xE0);
  return written;""")))
    L.append(P('half-non-tail-call', ['Bridge_leaf_ehalf'], ('src/cbor/encoding.c',
        '  return _cbor_encode_uint16(res, buffer, buffer_size, 0xE0);',
        '  size_t written = _cbor_encode_uint16(res, buffer, buffer_size, 0xE0);\n  return written;')))
    L.append(P('half-inlined-stores-degrades', ['Bridge_leaf_ehalf'], ('src/cbor/encoding.c',
        '  return _cbor_encode_uint16(res, buffer, buffer_size, 0xE0);',
        '  if (buffer_size < 3) return 0;\n  buffer[0] = 0xF9;\n  buffer[1] = (unsigned char)(res >> 8);\n  buffer[2] = (unsigned char)res;\n  return 3;')))
    L.append(P('alloc-bool-helper-with-out-parameter', ['Bridge_leaf_alloc'], ('src/cbor/internal/memory_utils.c',
        """void* _cbor_alloc_multiple(size_t item_size, size_t item_count) {
  if (_cbor_safe_to_multiply(item_size, item_count)) {
    return _cbor_malloc(item_size * item_count);
  } else {
    return NULL;
  }
}""", """static bool _cbor_total(size_t item_size, size_t item_count, size_t* total) {
  if (!_cbor_safe_to_multiply(item_size, item_count)) return false;
  *total = item_size * item_count;
  return true;
}

void* _cbor_alloc_multiple(size_t item_size, size_t item_count) {
  size_t total;
  if (!_cbor_total(item_size, item_count, &total)) return NULL;
  return _cbor_malloc(total);
}""")))
    L.append(M('alloc-bool-helper-wrong-product', 'Bridge_leaf_alloc', ('src/cbor/internal/memory_utils.c',
        """void* _cbor_alloc_multiple(size_t item_size, size_t item_count) {
  if (_cbor_safe_to_multiply(item_size, item_count)) {
    return _cbor_malloc(item_size * item_count);
  } else {
    return NULL;
  }
}""", """static bool _cbor_total(size_t item_size, size_t item_count, size_t* total) {
  if (!_cbor_safe_to_multiply(item_size, item_count)) return false;
  *total = item_size * item_size;
  return true;
}

void* _cbor_alloc_multiple(size_t item_size, size_t item_count) {
  size_t total;
  if (!_cbor_total(item_size, item_count, &total)) return NULL;
  return _cbor_malloc(total);
}""")))
    L.append(P('signaling-add-inlined-guard', ['Bridge_leaf_mem'], ('src/cbor/internal/memory_utils.c',
        '  if (_cbor_safe_to_add(a, b)) return a + b;\n  return 0;',
        '  const size_t headroom = SIZE_MAX - a;\n  if (b > headroom) return 0;\n  return a + b;')))
    L.append(M('signaling-add-inlined-guard-off-by-one', 'Bridge_leaf_mem', ('src/cbor/internal/memory_utils.c',
        '  if (_cbor_safe_to_add(a, b)) return a + b;\n  return 0;',
        '  const size_t headroom = SIZE_MAX - a;\n  if (b >= headroom) return 0;\n  return a + b;')))
    return L
