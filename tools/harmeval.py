#!/usr/bin/env python3
"""Run the checks against behaviour-preserving refactorings (false-alarm measurement).
usage: harmeval.py <root>   with <root>/out_*/R*-*/{patch.diff,meta.json}
For each patch: apply to /repo, run the quick check of every property whose anchor files the patch
touches (plus C13 and C17, whose inventories look at every file), revert.  Writes seeded/harmless.json."""
import json, os, re, subprocess, sys, glob, time
VERIF = os.path.dirname(os.path.dirname(os.path.abspath(__file__)))
# the patched tree the checks are run against: /repo itself, or a scratch worktree of it (EVAL_REPO) so that
# other runs that read /repo are not disturbed; the checks honour VERIF_REPO
EVAL_REPO = os.environ.get("EVAL_REPO", "/repo")
os.environ["VERIF_REPO"] = EVAL_REPO

def save_evidence():
    """the checks rewrite evidence/<id>.json on every run: runs against a patched /repo must not leave theirs behind"""
    import shutil, tempfile
    d = tempfile.mkdtemp(prefix="evid_keep_")
    for f in glob.glob(os.path.join(VERIF, "evidence", "*.json")):
        shutil.copy2(f, d)
    return d

def restore_evidence(d):
    import shutil
    for f in glob.glob(os.path.join(d, "*.json")):
        shutil.copy2(f, os.path.join(VERIF, "evidence"))
    shutil.rmtree(d, ignore_errors=True)

def sh(cmd, cwd=None, timeout=3000):
    p = subprocess.run(cmd, shell=True, cwd=cwd, stdout=subprocess.PIPE, stderr=subprocess.STDOUT, text=True, timeout=timeout)
    return p.returncode, p.stdout

def main():
    root = sys.argv[1]
    props = [json.loads(l) for l in open(os.path.join(VERIF, "properties.jsonl"))]
    rpath = os.path.join(VERIF, "seeded", "harmless.json")
    results = json.load(open(rpath)) if os.path.exists(rpath) else {}
    for pdir in sorted(glob.glob(os.path.join(root, "out_*", "R*-*"))):
        name = os.path.basename(pdir)
        if name in results or not os.path.exists(os.path.join(pdir, "patch.diff")):
            continue
        diff = open(os.path.join(pdir, "patch.diff")).read()
        files = set(re.findall(r"^\+\+\+ b/(\S+)", diff, re.M))
        ids = sorted({p["id"] for p in props if any(f in files for f in p["anchors"]["files"])} | {"C13", "C17"})
        rc, out = sh("git -C %s status --porcelain --untracked-files=no" % EVAL_REPO)
        if out.strip():
            raise SystemExit("/repo has uncommitted changes")
        rc, out = sh("git -C %s apply %s" % (EVAL_REPO, os.path.join(pdir, "patch.diff")))
        if rc != 0:
            results[name] = {"error": "does not apply: " + out[-200:]}
            continue
        res = {"files": sorted(files), "checks": {}}
        keep = save_evidence()
        try:
            for pid in ids:
                t = time.time()
                rc, out = sh("./check %s" % pid, cwd=VERIF)
                viol = [l for l in out.split("\n") if l.startswith("VIOLATION")]
                ev = json.load(open(os.path.join(VERIF, "evidence", pid + ".json")))
                res["checks"][pid] = {"exit": rc, "violations": viol[:2], "wall_s": round(time.time() - t, 1),
                                      "failed_obligations": ev["coverage"].get("failed_obligations", [])[:4],
                                      "translator_notes": ev["coverage"].get("translator_notes", [])[:6]}
        finally:
            sh("git -C %s checkout -- . && git -C %s clean -fdq -e _build -e _b" % (EVAL_REPO, EVAL_REPO))
            restore_evidence(keep)
        alarms = [k for k, v in res["checks"].items() if v["exit"] != 0]
        print(name, "files:", ",".join(sorted(files)), "checks:", len(ids), "ALARMS:", alarms, flush=True)
        results[name] = res
        json.dump(results, open(rpath, "w"), indent=1)
main()
