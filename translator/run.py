"""Regenerate coq/gen/*.v from /repo's current sources.  Files are rewritten only when their
content changes so that make stays incremental."""
import os, sys, json
from . import dispatch, tables, inventory, leaf, effects, selfcheck

VERIF = os.path.dirname(os.path.dirname(os.path.abspath(__file__)))
GEN = os.path.join(VERIF, "coq", "gen")

def write_if_changed(path, content):
    old = None
    if os.path.exists(path):
        old = open(path).read()
    if old != content:
        with open(path, "w") as f:
            f.write(content)
        return True
    return False

COQ = os.path.join(VERIF, "coq")
GEN_CHECK_TIMEOUT = int(os.environ.get("VERIF_GEN_CHECK_TIMEOUT", "180"))

def type_checks(text, name):
    """does this generated file compile (against the compiled theories)?  True / False / None (cannot tell:
       the theories it imports are not built or are stale — then nothing is concluded from the failure)"""
    import subprocess, tempfile, shutil
    d = tempfile.mkdtemp(prefix="gencheck-", dir=os.environ.get("VERIF_TMP", tempfile.gettempdir()))
    try:
        path = os.path.join(d, name)
        with open(path, "w") as f:
            f.write(text)
        try:
            p = subprocess.run(["coqc", "-Q", os.path.join(COQ, "theories"), "CB", "-Q", os.path.join(COQ, "gen"), "CBGen",
                                "-Q", d, "CBGenCheck", path], stdout=subprocess.PIPE, stderr=subprocess.STDOUT, text=True,
                               timeout=GEN_CHECK_TIMEOUT)
        except subprocess.TimeoutExpired:
            return False
        except OSError:
            return None
        if p.returncode == 0:
            return True
        out = p.stdout
        if "Cannot find" in out or "inconsistent assumptions" in out or "Compiled library" in out or "bad version" in out:
            return None
        return False
    finally:
        shutil.rmtree(d, ignore_errors=True)

def checked_emit(efns, enums, conf, group, lenums, path):
    """emit the group's file; if it does not type-check, find the offending functions (each alone
       beside fallbacks), re-emit them as fallbacks, and as a last resort fall the whole group back"""
    name = os.path.basename(path)
    def emit(fns):
        return effects.emit(fns, enums, conf, group, lenums)
    text = emit(efns)
    if os.path.exists(path) and open(path).read() == text and os.path.exists(path[:-2] + ".vo") \
       and os.path.getmtime(path[:-2] + ".vo") >= os.path.getmtime(path):
        return efns, []                      # unchanged since it was last compiled
    ok = type_checks(text, name)
    bad = []
    if ok is False:
        mine = [i for i, (spec, segs) in enumerate(efns) if spec.get("group", "containers") == group and segs is not None]
        for i in mine:
            alone = [(spec, segs if (k == i or spec.get("group", "containers") != group) else None) for k, (spec, segs) in enumerate(efns)]
            if type_checks(emit(alone), name) is False:
                bad.append(i)
        if not bad:
            bad = mine                        # no single culprit: the combination fails
        efns = [(spec, None if k in bad else segs) for k, (spec, segs) in enumerate(efns)]
        text = emit(efns)
        if type_checks(text, name) is False:  # still broken: every function of the group falls back
            bad = mine
            efns = [(spec, None if k in bad else segs) for k, (spec, segs) in enumerate(efns)]
            text = emit(efns)
    write_if_changed(path, text)
    return efns, [efns[i][0]["name"] for i in bad]

def regenerate(cfg, sizes):
    """cfg: vlib.build.configure() result; sizes: dict from `hx config`. Returns report dict."""
    incs, defs = cfg["incs"], cfg["defs"]
    report = {"unsupported": [], "files": []}
    os.makedirs(GEN, exist_ok=True)
    # dispatch table
    r, notes = dispatch.translate(incs, defs)
    report["unsupported"] += ["translator_unsupported:" + n for n in notes]
    if r is None:
        rows, uns = {}, list(range(256))
    else:
        rows, uns = r
    txt, n2 = selfcheck.guarded("Gen_dispatch", dispatch.emit(rows, uns), dispatch.emit({}, list(range(256))), "dispatch")
    report["unsupported"] += ["translator_unsupported:" + n for n in n2]
    write_if_changed(os.path.join(GEN, "Gen_dispatch.v"), txt)
    report["dispatch_rows"] = len(rows)
    # utf8d
    t, notes = tables.utf8d(incs, defs)
    report["unsupported"] += ["translator_unsupported:" + n for n in notes]
    if t is None:
        t = {"vals": [], "const": False, "static": False}
    txt, n2 = selfcheck.guarded("Gen_utf8d", tables.emit_utf8d(t), tables.emit_utf8d({"vals": [], "const": False, "static": False}), "utf8d")
    report["unsupported"] += ["translator_unsupported:" + n for n in n2]
    write_if_changed(os.path.join(GEN, "Gen_utf8d.v"), txt)
    report["utf8d_entries"] = len(t["vals"])
    # config
    txt, n2 = selfcheck.guarded("Gen_config", tables.emit_config(cfg["conf"], sizes), tables.emit_config({}, {k: 0 for k in sizes}), "config")
    report["unsupported"] += ["translator_unsupported:" + n for n in n2]
    write_if_changed(os.path.join(GEN, "Gen_config.v"), txt)
    # leaf functions
    fns, notes = leaf.translate_all(cfg)
    report["unsupported"] += ["translator_unsupported:" + n for n in notes]
    txt, n2 = leaf.emit_checked(fns)
    report["unsupported"] += ["translator_unsupported:" + n for n in n2]
    bad = set(n.split(":")[0] for n in n2)
    fns = [(n, (None if n in bad else t)) for n, t in fns]
    write_if_changed(os.path.join(GEN, "Gen_leaf.v"), txt)
    report["leaf_functions"] = sum(1 for _, t in fns if t is not None)
    # plans (translator/effects.py): container functions, decoder glue, serializer, cbor_decref, cbor_copy.
    # Every generated file is type-checked here, once, before it is installed: a translator bug can
    # cost a function its translator tie (it falls back), never the build of the property files.
    efns, notes, enums = effects.translate_all(cfg, sizes)
    report["unsupported"] += ["translator_unsupported:" + n for n in notes]
    lenums = effects.load_enums(cfg)
    for group, fname in effects.GROUPS.items():
        efns, bad = checked_emit(efns, enums, cfg.get("conf"), group, lenums, os.path.join(GEN, fname))
        report["unsupported"] += ["translator_unsupported:%s: generated text does not type-check" % n for n in bad]
    report["effect_plans"] = sum(1 for _, t in efns if t is not None)
    # inventories
    inv, notes = inventory.scan(cfg)
    report["unsupported"] += ["translator_unsupported:" + n for n in notes]
    txt, n2 = selfcheck.guarded("Gen_inventory", inventory.emit(inv), inventory.emit({k: [] for k in inv}), "inventory")
    report["unsupported"] += ["translator_unsupported:" + n for n in n2]
    write_if_changed(os.path.join(GEN, "Gen_inventory.v"), txt)
    report["inventory"] = {k: len(v) for k, v in inv.items()}
    return report
