"""Regenerate coq/gen/*.v from /repo's current sources.  Files are rewritten only when their
content changes so that make stays incremental."""
import os, sys, json
from . import dispatch, tables, inventory, leaf, effects

VERIF = os.path.dirname(os.path.dirname(os.path.abspath(__file__)))
GEN = os.path.join(VERIF, "coq", "gen")

def write_if_changed(path, content):
    old = None
    if os.path.exists(path):
        old = open(path).read()
    if old != content:
        with open(path, "w") as f:
            f.write(content)
        return True
    return False

def regenerate(cfg, sizes):
    """cfg: vlib.build.configure() result; sizes: dict from `hx config`. Returns report dict."""
    incs, defs = cfg["incs"], cfg["defs"]
    report = {"unsupported": [], "files": []}
    os.makedirs(GEN, exist_ok=True)
    # dispatch table
    r, notes = dispatch.translate(incs, defs)
    report["unsupported"] += ["translator_unsupported:" + n for n in notes]
    if r is None:
        rows, uns = {}, list(range(256))
    else:
        rows, uns = r
    write_if_changed(os.path.join(GEN, "Gen_dispatch.v"), dispatch.emit(rows, uns))
    report["dispatch_rows"] = len(rows)
    # utf8d
    t, notes = tables.utf8d(incs, defs)
    report["unsupported"] += ["translator_unsupported:" + n for n in notes]
    if t is None:
        t = {"vals": [], "const": False, "static": False}
    write_if_changed(os.path.join(GEN, "Gen_utf8d.v"), tables.emit_utf8d(t))
    report["utf8d_entries"] = len(t["vals"])
    # config
    write_if_changed(os.path.join(GEN, "Gen_config.v"), tables.emit_config(cfg["conf"], sizes))
    # leaf functions
    fns, notes = leaf.translate_all(cfg)
    report["unsupported"] += ["translator_unsupported:" + n for n in notes]
    write_if_changed(os.path.join(GEN, "Gen_leaf.v"), leaf.emit(fns))
    report["leaf_functions"] = sum(1 for _, t in fns if t is not None)
    # container plans (decision and arithmetic core of the struct-manipulating functions)
    efns, notes, enums = effects.translate_all(cfg, sizes)
    report["unsupported"] += ["translator_unsupported:" + n for n in notes]
    write_if_changed(os.path.join(GEN, "Gen_effects.v"), effects.emit(efns, enums, cfg.get("conf"), "containers"))
    # ... and of the decoder glue (builder_callbacks.c, cbor_load)
    write_if_changed(os.path.join(GEN, "Gen_effects_load.v"),
                     effects.emit(efns, enums, cfg.get("conf"), "load", effects.load_enums(cfg)))
    # ... and of the serializer (serialization.c)
    write_if_changed(os.path.join(GEN, "Gen_effects_ser.v"),
                     effects.emit(efns, enums, cfg.get("conf"), "ser", effects.load_enums(cfg)))
    # ... and of the release path of the reference counting (cbor_decref)
    write_if_changed(os.path.join(GEN, "Gen_effects_ref.v"),
                     effects.emit(efns, enums, cfg.get("conf"), "ref", effects.load_enums(cfg)))
    report["effect_plans"] = sum(1 for _, t in efns if t is not None)
    # inventories
    inv, notes = inventory.scan(cfg)
    report["unsupported"] += ["translator_unsupported:" + n for n in notes]
    write_if_changed(os.path.join(GEN, "Gen_inventory.v"), inventory.emit(inv))
    report["inventory"] = {k: len(v) for k, v in inv.items()}
    return report
