"""Self-check of generated Coq text: a generated file that does not compile would block every
property, so each generator's output is compiled once (coqc, in a scratch directory, against the
already compiled support files) before it is written; on failure the generator falls back -
function by function for Gen_leaf.v, to its empty form for the tables - and records
`translator_unsupported:<what>: generated text does not type-check`.  When even the fallback text
does not compile the support files are not built yet (fresh setup) and the check is skipped."""
import os, re, shutil, subprocess, tempfile

VERIF = os.path.dirname(os.path.dirname(os.path.abspath(__file__)))
COQ = os.path.join(VERIF, "coq")
NOTE = "generated text does not type-check"

def coqc_text(name, text, timeout=180):
    """compile `text` as <name>.v in a scratch directory.  -> (ok, error line or None, message)"""
    d = tempfile.mkdtemp(prefix="cbgen-")
    try:
        f = os.path.join(d, name + ".v")
        with open(f, "w") as h:
            h.write(text)
        try:
            p = subprocess.run(["coqc", "-w", "none", "-Q", os.path.join(COQ, "theories"), "CB", "-Q", os.path.join(COQ, "gen"), "CBGen", f],
                               stdout=subprocess.PIPE, stderr=subprocess.STDOUT, text=True, timeout=timeout, cwd=d)
        except subprocess.TimeoutExpired:
            return False, None, "timeout"
        except OSError as e:
            return False, None, "coqc: %s" % e
        if p.returncode == 0:
            return True, None, ""
        m = re.search(r'File "[^"]*%s\.v", line (\d+)' % re.escape(name), p.stdout)
        return False, (int(m.group(1)) if m else None), p.stdout[-400:]
    finally:
        shutil.rmtree(d, ignore_errors=True)

def already_compiled(name, text):
    """the text is what coq/gen/<name>.v already holds and a .vo at least as new exists: it compiled before"""
    v = os.path.join(COQ, "gen", name + ".v")
    vo = v + "o"
    try:
        return open(v).read() == text and os.path.getmtime(vo) >= os.path.getmtime(v)
    except OSError:
        return False

def guarded(name, text, fallback_text, what):
    """text if it compiles (or nothing can be compiled yet), else fallback_text and a note"""
    if already_compiled(name, text):
        return text, []
    ok, _, _ = coqc_text(name, text)
    if ok:
        return text, []
    if fallback_text is None or not coqc_text(name, fallback_text)[0]:
        return text, []          # support files not compiled yet, or no fallback: leave it to make
    return fallback_text, ["%s: %s" % (what, NOTE)]
