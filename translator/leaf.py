"""Translate small C leaf functions (integer subset) into Gallina over Z, statement by statement.

Every integral conversion to an unsigned type inserts an explicit wrap; arithmetic on an unsigned
type wraps; `int` arithmetic is left unbounded (the promoted operands here are 8/16-bit values, far
from INT_MAX); C truth values stay integers (b2z); statements are rendered in continuation-passing
style; the one `while` becomes recursion on fuel 65.  Output buffers are modelled as the list of
stores `(index, value)` in program order; the fields of `struct cbor_decoder_result* result` as
three variables.  A construct outside the subset raises Unsupported: the function is then tied to
the model by the correspondence runs only.

Extensions (second wave).  A `float`/`double` parameter is rendered as its IEEE-754 bit pattern
(an integer): the union read `((union _cbor_float_helper){.as_float = value}).as_uint` is the
identity on bits and `isnan(value)` (`__builtin_isnan`) is the bit test `isnan32`/`isnan64` of
GenLeafTypes.v.  Conversions to a signed type narrower than the source insert `swrapz`.  A function
translated in *ub mode* returns an `option`: every shift whose amount is not a literal inside the
width of the promoted left operand, every division by a non-literal and every read of the `utf8d`
table contributes a definedness test, evaluated (guarded by the conditions of the enclosing `?:`,
`&&`, `||`) before the statement it occurs in; `None` is "undefined behaviour".  A function with
return mode `ptr` returns `option Z`: `Some n` is "the allocator was asked for n bytes", `None`
is NULL without a request."""
import os
from . import cast

class Unsupported(Exception):
    pass

UNSIGNED = {"size_t": 64, "uint64_t": 64, "unsigned long": 64, "unsigned long long": 64, "uint32_t": 32, "unsigned int": 32, "uint16_t": 16,
            "unsigned short": 16, "uint8_t": 8, "unsigned char": 8, "_Bool": 1, "bool": 1}
SIGNED = {"int": 32, "long": 64, "long long": 64, "int8_t": 8, "signed char": 8, "short": 16, "int16_t": 16, "int32_t": 32, "char": 8}
FLOATS = {"float": 32, "double": 64}
STATUS = {"CBOR_DECODER_FINISHED": 0, "CBOR_DECODER_NEDATA": 1, "CBOR_DECODER_ERROR": 2}

def ctype(n):
    t = n.get("type", {})
    return (t.get("desugaredQualType") or t.get("qualType") or "").replace("const ", "").strip()

def width(t):
    t = t.replace("const ", "").strip()
    if t in UNSIGNED:
        return UNSIGNED[t], False
    if t in SIGNED:
        return SIGNED[t], True
    if t.startswith("enum "):
        return 32, False
    raise Unsupported("type " + t)

class Ctx:
    def __init__(self, known_fns):
        self.known = known_fns
        self.buffers = set()      # names of output-buffer parameters
        self.sources = set()      # names of input pointer parameters
        self.result = None        # name of the struct cbor_decoder_result* parameter
        self.bound = set()        # parameters and locals
        self.loops = []; self.fname = ''
        self.tailcall_pair = False
        self.stored = False
        self.src = None; self.incs = None; self.defs = None
        self.floats = {}          # float/double parameters rendered as bit patterns: name -> width
        self.ptrs = set()         # opaque pointer parameters (only handed on to _cbor_realloc)
        self.ptrlocals = set()    # pointer-typed locals of a `ptr`-returning function (option values)
        self.unions = {}          # local union helper variable -> float parameter it was initialised from
        self.union_member = {}    # ... -> name of the floating-point member that was written
        self.unassigned = set()   # locals declared without an initialiser and not yet assigned
        self.ub = False           # ub mode: the function returns an option, None = undefined behaviour
        self.checks = []          # pending definedness tests of the statement being translated
        self.guards = []          # conditions under which the sub-expression being translated is evaluated
        self.ret_mode = "int"
        self.loopvars = []        # per loop, the names of the state components in tuple order ("exit" last when present)
        self.last_return_const = None
        self.consts = {}          # variables known to hold a literal on this path (results of inlined helpers)
        self.inline_n = 0         # counter for the renaming of inlined helpers
        self.inline_stack = []    # names of the static helpers being inlined (no recursion)
        self.ret_stack = []       # continuations that receive the value an inlined helper returns
        self.deref = {}           # pointer parameter of an inlined helper -> text of the variable it points to
        self.status_alias = set() # pointer parameters of inlined helpers that are the struct out-parameter
        self.fn_names = set()     # names in the FUNCTIONS table (never inlined)
        self.sfields = None       # (parameter, {int field: width}, {pointer fields}) of a struct whose integer fields are state s_<f>
        self.skipped = set()      # parameters that are not rendered (only copied into fresh memory)
        self.nullptrs = set()     # pointer locals that are NULL on this path (granted mode)
        self.unsetptrs = set()    # pointer locals declared without a value (granted mode)
        self.requests = set()     # pointer locals bound to the answer of an allocator request
        self.req = None           # the request made so far on this path (text), None = none
        self.granted = False      # ptr mode with the allocator's answer as the input a_granted
        self.flocals = set()      # double / float locals of a function in float mode (symbolic values, type fval)
        self.inouts = []          # integer in/out pointer parameters (`*p` is the variable p_<name>), in order
        self.bytes = {}           # input byte pointer -> the parameter holding its length
        self.status = None        # (parameter name, [field names]) of a struct out-parameter
        self.status_set = set()
        self.known_ub = {}        # ub-mode callees with in/out parameters: name -> kinds
        self.loop_stack = []      # frames of the loops being translated: {tup, inc, gotos, has_exit}
        self.end_stack = []       # what an exhausted statement list means (inside a loop body: the state tuple)
        self.active_labels = set()
        self.labels = {}          # label decl id -> statements from the label to the end of the function
        self.indet = False        # locals without a value at loop entry become indeterminate parameters u_<name>
        self.indet_params = []
        self.fuel = "65%nat"
    def fail(self):
        """undefined behaviour: None, or inside a loop body the state with the exit code -1"""
        if self.loop_stack:
            return "(let x_exit := (-1) in %s)" % self.loop_stack[-1]["tup"]
        return "None"
    def need(self, cond):
        """record a definedness test for the expression being translated (ub mode only)"""
        if not self.ub:
            return
        for pol, c in reversed(self.guards):
            cond = "(implb %s %s)" % (c, cond) if pol else "(%s || %s)" % (c, cond)
        self.checks.append(cond)
    def take(self):
        c, self.checks = self.checks, []
        return c
    def tu(self):
        if getattr(self, "_tu", None) is None:
            self._tu = cast.ast_dump(self.src, self.incs, None, self.defs)
        return self._tu
    def enum_value(self, name):
        """value of an enumeration constant (sequential from 0, or its explicit literal initialiser)"""
        def walk(n):
            if isinstance(n, dict):
                if n.get("kind") == "EnumDecl":
                    v = -1
                    for c in n.get("inner", []):
                        if c.get("kind") != "EnumConstantDecl":
                            continue
                        init = [x for x in c.get("inner", []) if x.get("kind") not in ("FullComment",)]
                        if init:
                            iv = const_eval(init[-1])
                            if iv is None and init[-1].get("kind") == "ConstantExpr" and "value" in init[-1]:
                                iv = int(init[-1]["value"])
                            if iv is None:
                                return ("bad",)
                            v = iv
                        else:
                            v += 1
                        if c.get("name") == name:
                            return ("ok", v)
                for c in n.get("inner", []):
                    r = walk(c)
                    if r:
                        return r
            return None
        for d in self.tu():
            r = walk(d)
            if r and r[0] == "ok":
                return r[1]
            if r:
                break
        raise Unsupported("enum constant " + name)
    def struct_fields(self, sname):
        """[(field name, type)] of `struct sname`"""
        def walk(n):
            if isinstance(n, dict):
                if n.get("kind") == "RecordDecl" and n.get("name") == sname and n.get("completeDefinition"):
                    return [(c["name"], c.get("type", {}).get("desugaredQualType") or c.get("type", {}).get("qualType", ""))
                            for c in n.get("inner", []) if c.get("kind") == "FieldDecl"]
                for c in n.get("inner", []):
                    r = walk(c)
                    if r:
                        return r
            return None
        for d in self.tu():
            r = walk(d)
            if r:
                return r
        raise Unsupported("struct " + sname)
    def global_const(self, name):
        docs = cast.ast_dump(self.src, self.incs, name, self.defs)
        for d in docs:
            if d.get("kind") == "VarDecl" and d.get("name") == name and "const" in d.get("type", {}).get("qualType", ""):
                init = [x for x in d.get("inner", []) if x.get("kind") != "FullComment"]
                if init:
                    v = cast.expr(init[-1])
                    if v[0] == "int":
                        return v[1]
        raise Unsupported("global " + name)

def wrapz(w, e):
    return "(wrapz %d %s)" % (w, e)

def guard(chk, txt, cx=None):
    if not chk:
        return txt
    return "(if negb (%s) then %s else\n  %s)" % (" && ".join(chk), cx.fail() if cx is not None else "None", txt)

def lit(n):
    """value of an integer literal (through casts / parens), or None"""
    m = cast.strip(n)
    if m.get("kind") == "IntegerLiteral":
        return int(m["value"])
    return None

def const_eval(n):
    """value of a compile-time integer expression made of literals, + - *, parens and casts; or None"""
    k = n.get("kind")
    if k in ("ParenExpr", "ConstantExpr"):
        return const_eval(n["inner"][-1])
    if k == "IntegerLiteral":
        return int(n["value"])
    if k in ("ImplicitCastExpr", "CStyleCastExpr") and n.get("castKind") in ("IntegralCast", "NoOp"):
        v = const_eval(n["inner"][-1])
        if v is None:
            return None
        try:
            w, signed = width(ctype(n))
        except Unsupported:
            return None
        if signed:
            return v if -(1 << (w - 1)) <= v < (1 << (w - 1)) else None
        return v % (1 << w)
    if k == "BinaryOperator" and n.get("opcode") in ("+", "-", "*"):
        a, b = (const_eval(x) for x in n["inner"])
        if a is None or b is None:
            return None
        r = {"+": a + b, "-": a - b, "*": a * b}[n["opcode"]]
        try:
            w, signed = width(ctype(n))
        except Unsupported:
            return None
        if signed:
            return r if -(1 << (w - 1)) <= r < (1 << (w - 1)) else None
        return r % (1 << w)
    return None

def nonneg(n):
    """syntactic: the (signed-typed) expression cannot be negative - a promoted unsigned value, a
    non-negative literal, or + * / % >> & | of such"""
    k = n.get("kind")
    if k in ("ParenExpr", "ConstantExpr"):
        return nonneg(n["inner"][-1])
    if k == "IntegerLiteral":
        return int(n["value"]) >= 0
    if k in ("ImplicitCastExpr", "CStyleCastExpr"):
        ck = n.get("castKind")
        inner = n["inner"][-1]
        if ck in ("LValueToRValue", "NoOp"):
            try:
                return not width(ctype(n))[1]
            except Unsupported:
                return False
        if ck == "IntegralCast":
            try:
                w, signed = width(ctype(n)); ws, ss = width(ctype(inner))
            except Unsupported:
                return False
            if not signed:
                return True
            return (not ss and ws < w) or (ss and ws <= w and nonneg(inner))
        return False
    if k == "DeclRefExpr":
        try:
            return not width(ctype(n))[1]
        except Unsupported:
            return False
    if k == "BinaryOperator":
        op = n.get("opcode")
        a, b = n["inner"]
        if op in ("+", "*", "/", "%", ">>", "|"):
            return nonneg(a) and nonneg(b)
        if op == "&":
            return nonneg(a) or nonneg(b)
    return False

SIZEOF_CONFIG = {"struct _cbor_stack_record": "gen_sizeof_rec", "cbor_item_t": "gen_sizeof_item", "struct cbor_item_t": "gen_sizeof_item",
                 "struct cbor_pair": "gen_sizeof_pair", "struct cbor_indefinite_string_data": "gen_sizeof_isd"}

def is_status(name, cx):
    return bool(cx.status) and (name == cx.status[0] or name in cx.status_alias)

def deref_var(name, cx):
    """text of the variable `*name` denotes, for an in/out parameter or an aliased helper parameter"""
    if name in cx.deref:
        return cx.deref[name]
    if name in cx.inouts:
        return "p_" + name
    return None

def is_null(n):
    m = n
    while m.get("kind") in ("ParenExpr", "ImplicitCastExpr", "CStyleCastExpr"):
        if m.get("castKind") == "NullToPointer":
            return True
        m = m["inner"][-1]
    return False

def is_nullptr(n, cx):
    m = cast.strip(n)
    return is_null(n) or (m.get("kind") == "DeclRefExpr" and m["referencedDecl"]["name"] in cx.nullptrs)

def is_request(n, cx):
    m = cast.strip(n)
    return m.get("kind") == "DeclRefExpr" and m["referencedDecl"]["name"] in cx.requests

def float_param(n, cx):
    """the float/double parameter an expression denotes (through casts, incl. float<->double conversions)"""
    m = cast.strip(n)
    if m.get("kind") == "DeclRefExpr" and m["referencedDecl"]["name"] in cx.floats:
        return m["referencedDecl"]["name"]
    return None

def union_bits(n, cx):
    """`.as_uint` of a union helper initialised from a float parameter: the parameter's bits"""
    w, signed = width(ctype(n))
    base = cast.strip(n["inner"][0])
    if not ctype(base).startswith("union "):
        raise Unsupported("member access")
    fp = None
    if base.get("kind") == "CompoundLiteralExpr":
        il = base["inner"][0]
        fp = union_init(il, cx)
    elif base.get("kind") == "DeclRefExpr" and base["referencedDecl"]["name"] in cx.unions:
        fp = cx.unions[base["referencedDecl"]["name"]]
        if fp is not None and n.get("name") == cx.union_member.get(base["referencedDecl"]["name"]):
            raise Unsupported("read of the floating-point member")
    if fp is None or signed or cx.floats[fp] != w:
        raise Unsupported("union read")
    return "v_" + fp

def union_init(il, cx):
    """InitListExpr of a union helper `{.as_float = <float parameter>}` -> parameter name"""
    if il.get("kind") != "InitListExpr" or not ctype(il).startswith("union "):
        return None
    fld = il.get("field", {})
    ft = fld.get("type", {}).get("qualType", "")
    inits = [x for x in il.get("inner", [])]
    if ft not in FLOATS or len(inits) != 1:
        return None
    m = inits[0]
    # no conversion may sit between the parameter and the member (float -> double changes the bits)
    while m.get("kind") in ("ParenExpr",) or (m.get("kind") == "ImplicitCastExpr" and m.get("castKind") in ("LValueToRValue", "NoOp")):
        m = m["inner"][-1]
    if m.get("kind") == "DeclRefExpr" and m["referencedDecl"]["name"] in cx.floats and cx.floats[m["referencedDecl"]["name"]] == FLOATS[ft]:
        return m["referencedDecl"]["name"]
    return None

def E(n, cx):
    k = n.get("kind")
    if k in ("ParenExpr", "ConstantExpr"):
        return E(n["inner"][-1], cx)
    if k == "IntegerLiteral":
        return "%s" % int(n["value"])
    if k == "CXXBoolLiteralExpr":
        return "1" if n.get("value") else "0"
    if k == "ImplicitCastExpr" or k == "CStyleCastExpr":
        ck = n.get("castKind")
        inner = n["inner"][-1]
        if ck in ("LValueToRValue", "NoOp", "FunctionToPointerDecay"):
            return E(inner, cx)
        if ck == "IntegralCast":
            w, signed = width(ctype(n))
            e = E(inner, cx)
            if signed:
                ws, ss = width(ctype(inner))
                if ws < w or (ss and ws <= w):
                    return e          # value-preserving
                v = lit(inner)
                if v is not None and -(1 << (w - 1)) <= v < (1 << (w - 1)):
                    return e
                return "(swrapz %d %s)" % (w, e)
            if inner.get("kind") == "IntegerLiteral" and 0 <= int(inner["value"]) < (1 << w):
                return e
            return wrapz(w, e)
        if ck == "IntegralToBoolean":
            return "(b2z (nz %s))" % E(inner, cx)
        raise Unsupported("cast " + str(ck))
    if k == "DeclRefExpr":
        d = n["referencedDecl"]
        if d.get("kind") == "EnumConstantDecl":
            if d["name"] in STATUS:
                return str(STATUS[d["name"]])
            return str(cx.enum_value(d["name"]))
        if d["name"] in cx.requests:
            return "(b2z a_granted)"      # a pointer as a truth value: non-null iff the allocator granted the request
        if d["name"] in cx.nullptrs:
            return "0"
        if d["name"] in cx.skipped:
            raise Unsupported("use of the unrendered parameter " + d["name"])
        if d["name"] in cx.floats:
            raise Unsupported("floating-point value used outside isnan / the union helper")
        if d["name"] in cx.unassigned:
            raise Unsupported("read of an uninitialised local")
        if d.get("kind") == "VarDecl" and d["name"] not in cx.bound:
            return str(cx.global_const(d["name"]))
        width(ctype(n))   # integer-typed
        return "v_" + d["name"]
    if k == "UnaryExprOrTypeTraitExpr":
        if n.get("name") == "sizeof":
            at = n.get("argType", {}).get("qualType")
            if at is None and n.get("inner"):
                at = ctype(n["inner"][0])       # sizeof(*p), sizeof expr: the (unevaluated) operand's type
            at = at or "?"
            if at in SIZEOF_CONFIG:
                return "(Z.of_N %s)" % SIZEOF_CONFIG[at]    # measured on the build (Gen_config)
            w, _ = width(at)
            return str(w // 8)
        raise Unsupported("type trait")
    if k == "BinaryOperator":
        op = n["opcode"]
        a, b = n["inner"]
        if op in ("&&", "||"):
            ea = E(a, cx)
            cx.guards.append((op == "&&", "(nz %s)" % ea))
            try:
                eb = E(b, cx)
            finally:
                cx.guards.pop()
            return "(b2z (nz %s %s nz %s))" % (ea, op, eb)
        if op == ",":
            raise Unsupported("operator ,")
        if op in ("==", "!=") and cx.granted and (is_request(a, cx) and is_null(b) or is_request(b, cx) and is_null(a)):
            return "(b2z (negb a_granted))" if op == "==" else "(b2z a_granted)"
        if op in ("==", "!=") and cx.granted and is_nullptr(a, cx) and is_nullptr(b, cx):
            return "1" if op == "==" else "0"
        ea, eb = E(a, cx), E(b, cx)
        if op in ("<", "<=", ">", ">=", "==", "!="):
            width(ctype(a)); width(ctype(b))      # integer comparison
            cmp_ = {"<": "<?", "<=": "<=?", ">": ">?", ">=": ">=?", "==": "=?"}.get(op)
            if op == "!=":
                return "(b2z (negb (%s =? %s)))" % (ea, eb)
            return "(b2z (%s %s %s))" % (ea, cmp_, eb)
        w, signed = width(ctype(n))
        if op in ("+", "-", "*"):
            r = "(%s %s %s)" % (ea, op, eb)
            return r if signed else wrapz(w, r)
        if op in (">>", "<<"):
            v = lit(b)
            if not (v is not None and 0 <= v < w):
                cx.need("((0 <=? %s) && (%s <? %d))" % (eb, eb, w))
            if op == ">>":
                return "(Z.shiftr %s %s)" % (ea, eb)
            r = "(Z.shiftl %s %s)" % (ea, eb)
            if signed:
                # AUDIT2: a left shift of a (promoted) int whose result can reach the sign bit is not the mathematical
                # product: gcc / clang give the two's-complement value, which a later widening conversion sign-extends
                # (`(source[4] << 24)` added into a uint64_t).  Rendered as such unless a syntactic bound excludes it.
                from .inventory import max_value
                ma = max_value(a)
                if not (v is not None and 0 <= v < w and ma is not None and (ma << v) < (1 << (w - 1))):
                    r = "(swrapz %d %s)" % (w, r)
                return r
            return wrapz(w, r)
        if op in ("/", "%"):
            v = lit(b)
            if v is None or v == 0:
                if not cx.ub:
                    raise Unsupported("division by a non-literal")
                cx.need("(nz %s)" % eb)
            if signed and not (nonneg(a) and v is not None and v > 0):
                return "(%s %s %s)" % ("Z.quot" if op == "/" else "Z.rem", ea, eb)
            # unsigned operands, or an int dividend that cannot be negative with a positive literal divisor:
            # C's truncating division is the floor division
            return "(%s %s %s)" % (ea, "/" if op == "/" else "mod", eb)
        if op == "&":
            return "(Z.land %s %s)" % (ea, eb)
        if op == "|":
            return "(Z.lor %s %s)" % (ea, eb)
        raise Unsupported("operator " + op)
    if k == "UnaryOperator":
        op = n["opcode"]
        if op == "!":
            return "(b2z (negb (nz %s)))" % E(n["inner"][0], cx)
        if op == "-":
            w, signed = width(ctype(n))
            e = "(- %s)" % E(n["inner"][0], cx)
            return e if signed else wrapz(w, e)
        if op == "+":
            width(ctype(n))
            return E(n["inner"][0], cx)
        if op == "*":
            # *(source + k)
            p = cast.strip(n["inner"][0])
            if p.get("kind") == "DeclRefExpr" and deref_var(p["referencedDecl"]["name"], cx):
                width(ctype(n))
                dv = deref_var(p["referencedDecl"]["name"], cx)
                if dv.startswith("v_") and dv[2:] in cx.unassigned:
                    raise Unsupported("read of an uninitialised local")
                return dv
            off = ptr_off(p, cx)
            if off is not None:
                # AUDIT2: `*(uint16_t*)(source + k)` reads 2 bytes in host (little-endian) order, not the byte at k
                we, se = width(ctype(n))
                if we == 8:
                    return "(v_%s %d)" % off
                if not se and we in (16, 32, 64):
                    return "(" + " + ".join("((v_%s %d) * %d)" % (off[0], off[1] + i, 256 ** i) for i in range(we // 8)) + ")"
                raise Unsupported("read of a %d-bit object through a cast byte pointer" % we)
        raise Unsupported("unary " + op)
    if k == "ArraySubscriptExpr":
        base, idx = n["inner"]
        b = cast.strip(base)
        if b.get("kind") == "DeclRefExpr" and (b["referencedDecl"]["name"] in cx.sources or b["referencedDecl"]["name"] in cx.bytes) \
                and width(ctype(n))[0] != 8:
            raise Unsupported("subscript of a byte pointer cast to a wider element type")      # AUDIT2
        if b.get("kind") == "DeclRefExpr" and b["referencedDecl"]["name"] in cx.sources:
            i = const_eval(idx)
            if i is not None and i >= 0:
                return "(v_%s %d)" % (b["referencedDecl"]["name"], i)
        if b.get("kind") == "DeclRefExpr" and b["referencedDecl"]["name"] in cx.bytes and cx.ub:
            ei = E(idx, cx)
            cx.need("((0 <=? %s) && (%s <? v_%s))" % (ei, ei, cx.bytes[b["referencedDecl"]["name"]]))
            return "(v_%s %s)" % (b["referencedDecl"]["name"], ei)
        if (b.get("kind") == "DeclRefExpr" and b["referencedDecl"].get("kind") == "VarDecl" and b["referencedDecl"]["name"] == "utf8d"
                and b["referencedDecl"]["name"] not in cx.bound and cx.ub and "const" in b.get("type", {}).get("qualType", "")):
            # the DFA table of unicode.c (Gen_utf8d.gen_utf8d); an index outside the table is undefined behaviour
            ei = E(idx, cx)
            cx.need("((0 <=? %s) && (%s <? Z.of_nat (List.length gen_utf8d)))" % (ei, ei))
            return "(tblz gen_utf8d %s)" % ei
        raise Unsupported("array read")
    if k == "MemberExpr":
        base = cast.strip(n["inner"][0])
        if n.get("isArrow") and base.get("kind") == "DeclRefExpr" and base["referencedDecl"]["name"] == cx.result:
            return "r_" + n["name"]
        if n.get("isArrow") and cx.sfields and base.get("kind") == "DeclRefExpr" and base["referencedDecl"]["name"] == cx.sfields[0] \
                and n["name"] in cx.sfields[1]:
            return "s_" + n["name"]
        if n.get("isArrow") and cx.status and base.get("kind") == "DeclRefExpr" and is_status(base["referencedDecl"]["name"], cx):
            if n["name"] not in cx.status_set:
                raise Unsupported("read of a field of the out-parameter before it is assigned")
            return "t_" + n["name"]
        if not n.get("isArrow"):
            return union_bits(n, cx)
        raise Unsupported("member access")
    if k == "ConditionalOperator":
        c, a, b = n["inner"]
        ec = E(c, cx)
        cx.guards.append((True, "(nz %s)" % ec))
        try:
            ea = E(a, cx)
        finally:
            cx.guards.pop()
        cx.guards.append((False, "(nz %s)" % ec))
        try:
            eb = E(b, cx)
        finally:
            cx.guards.pop()
        return "(if nz %s then %s else %s)" % (ec, ea, eb)
    if k == "CallExpr":
        f = cast.strip(n["inner"][0])
        if f.get("kind") == "DeclRefExpr" and f["referencedDecl"]["name"] in ("__builtin_isnan", "__builtin_isnanf"):
            args = n["inner"][1:]
            fp = float_param(args[0], cx) if len(args) == 1 else None
            if fp is None:
                raise Unsupported("isnan of something other than a float parameter")
            return "(b2z (isnan%d v_%s))" % (cx.floats[fp], fp)
        if f.get("kind") == "DeclRefExpr" and f["referencedDecl"]["name"] in cx.known:
            name = f["referencedDecl"]["name"]
            args = n["inner"][1:]
            sig = cx.known[name]
            parts = []
            for a, kind in zip(args, sig):
                if kind == "int":
                    parts.append(E(a, cx))
                elif kind == "skip":
                    continue
                elif kind == "buffer":
                    aa = cast.strip(a)
                    if not (aa.get("kind") == "DeclRefExpr" and aa["referencedDecl"]["name"] in cx.buffers):
                        raise Unsupported("buffer argument is not the caller's buffer")
                    cx.tailcall_pair = True
                else:
                    raise Unsupported("call argument kind")
            return "(g%s %s)" % (name, " ".join(parts))
        raise Unsupported("call")
    raise Unsupported("expression " + str(k))

def P(n, cx):
    """pointer-valued expression of a `ptr`-returning function -> option Z:
    Some n = the result of asking the allocator for n bytes, None = NULL without a request"""
    k = n.get("kind")
    if k in ("ParenExpr", "ConstantExpr"):
        return P(n["inner"][-1], cx)
    if k in ("ImplicitCastExpr", "CStyleCastExpr"):
        ck = n.get("castKind")
        if ck == "NullToPointer":
            return "None"
        if ck in ("LValueToRValue", "NoOp", "BitCast"):
            return P(n["inner"][-1], cx)
        raise Unsupported("pointer cast " + str(ck))
    if k == "DeclRefExpr" and n["referencedDecl"]["name"] in cx.ptrlocals:
        return "q_" + n["referencedDecl"]["name"]
    if k == "ConditionalOperator":
        c, a, b = n["inner"]
        return "(if nz %s then %s else %s)" % (E(c, cx), P(a, cx), P(b, cx))
    if k == "CallExpr":
        f = cast.strip(n["inner"][0])
        args = n["inner"][1:]
        fn = f.get("referencedDecl", {}).get("name") if f.get("kind") == "DeclRefExpr" else None
        if fn == "_cbor_malloc" and len(args) == 1:
            return "(Some %s)" % E(args[0], cx)
        if fn == "_cbor_realloc" and len(args) == 2:
            p = cast.strip(args[0])
            if p.get("kind") == "DeclRefExpr" and p["referencedDecl"]["name"] in cx.ptrs:
                return "(Some %s)" % E(args[1], cx)
            raise Unsupported("realloc of something other than the pointer parameter")
        raise Unsupported("pointer-valued call")
    raise Unsupported("pointer expression " + str(k))

def F(n, cx):
    """floating-point expression of a float-returning function -> symbolic value (PHalfShape.fval):
    ldexp stays an uninterpreted constructor, INFINITY / NAN / unary minus / the conversion to float are constructors"""
    k = n.get("kind")
    if k in ("ParenExpr", "ConstantExpr"):
        return F(n["inner"][-1], cx)
    t = ctype(n)
    if t not in FLOATS:
        raise Unsupported("floating-point expression of type " + t)
    if k in ("ImplicitCastExpr", "CStyleCastExpr"):
        ck = n.get("castKind")
        inner = n["inner"][-1]
        if ck in ("LValueToRValue", "NoOp"):
            return F(inner, cx)
        if ck == "FloatingCast":
            ti = ctype(inner)
            if ti not in FLOATS:
                raise Unsupported("floating cast from " + ti)
            if FLOATS[t] < FLOATS[ti]:
                return "(FCast32 %s)" % F(inner, cx)
            return F(inner, cx)      # float -> double is exact
        raise Unsupported("floating cast " + str(ck))
    if k == "DeclRefExpr" and n["referencedDecl"]["name"] in cx.flocals:
        if n["referencedDecl"]["name"] in cx.unassigned:
            raise Unsupported("read of an uninitialised local")
        return "f_" + n["referencedDecl"]["name"]
    if k == "UnaryOperator" and n.get("opcode") == "-":
        return "(FNeg %s)" % F(n["inner"][0], cx)
    if k == "ConditionalOperator":
        c, a, b = n["inner"]
        return "(if nz %s then %s else %s)" % (E(c, cx), F(a, cx), F(b, cx))
    if k == "CallExpr":
        f = cast.strip(n["inner"][0])
        fn = f.get("referencedDecl", {}).get("name") if f.get("kind") == "DeclRefExpr" else None
        args = n["inner"][1:]
        if fn == "ldexp" and len(args) == 2:
            a = args[0]
            while a.get("kind") == "ParenExpr":
                a = a["inner"][-1]
            if a.get("kind") in ("ImplicitCastExpr", "CStyleCastExpr") and a.get("castKind") == "IntegralToFloating":
                return "(FLdexp %s %s)" % (E(a["inner"][-1], cx), E(args[1], cx))
            raise Unsupported("ldexp of a non-integer")
        if fn in ("__builtin_inff", "__builtin_inf", "__builtin_huge_valf", "__builtin_huge_val") and not args:
            return "FInf"
        if fn in ("__builtin_nanf", "__builtin_nan") and len(args) == 1:
            a = cast.strip(args[0])
            if a.get("kind") == "StringLiteral" and a.get("value") == '""':
                return "FNan"
        raise Unsupported("floating-point call")
    raise Unsupported("floating-point expression " + str(k))

def ptr_off(p, cx):
    """source + k -> (name, k)"""
    p = cast.strip(p)
    if p.get("kind") == "DeclRefExpr" and p["referencedDecl"]["name"] in cx.sources:
        return (p["referencedDecl"]["name"], 0)
    if p.get("kind") == "BinaryOperator" and p.get("opcode") == "+":
        a, b = p["inner"]
        if ctype(p).replace(" ", "") != "unsignedchar*":
            raise Unsupported("pointer arithmetic on a cast byte pointer (scaled by the pointee size)")      # AUDIT2
        pa = ptr_off(a, cx)
        v = const_eval(b)
        if pa and v is not None and v >= 0:
            return (pa[0], pa[1] + v)
    return None

def comma_split(n):
    """`a, b, c` (comma operators) -> [a, b, c]"""
    if n.get("kind") == "BinaryOperator" and n.get("opcode") == ",":
        return comma_split(n["inner"][0]) + comma_split(n["inner"][1])
    if n.get("kind") == "ParenExpr":
        return comma_split(n["inner"][-1])
    return [n]

def contains_kind(n, kinds):
    if isinstance(n, dict):
        if n.get("kind") in kinds:
            return True
        return any(contains_kind(c, kinds) for c in n.get("inner", []))
    return False

def assigned_in(n, names, declared, cx):
    """names of the variables a statement assigns (=, op=, ++, --, address taken) / declares"""
    if not isinstance(n, dict):
        return
    k = n.get("kind")
    tgt = None
    if (k == "BinaryOperator" and n.get("opcode") == "=") or k == "CompoundAssignOperator":
        tgt = cast.strip(n["inner"][0])
    elif k == "UnaryOperator" and n.get("opcode") in ("++", "--", "&"):
        tgt = cast.strip(n["inner"][0])
    if tgt is not None:
        if tgt.get("kind") == "DeclRefExpr" and tgt["referencedDecl"].get("kind") in ("VarDecl", "ParmVarDecl"):
            names.add(tgt["referencedDecl"]["name"])
        else:
            raise Unsupported("loop body stores through " + str(tgt.get("kind")))
    if k == "VarDecl":
        declared.add(n["name"])
    for c in n.get("inner", []):
        assigned_in(c, names, declared, cx)

# ---------------------------------------------------------------------------------------------
# static helper functions of the same file are inlined at their call sites (alpha-renamed copy of the body)
def static_value(n, cx):
    """value of an expression that is a literal on this path (literals, variables in cx.consts, ! == != casts), or None"""
    k = n.get("kind")
    if k in ("ParenExpr", "ConstantExpr"):
        return static_value(n["inner"][-1], cx)
    if k == "IntegerLiteral":
        return int(n["value"])
    if k == "CXXBoolLiteralExpr":
        return 1 if n.get("value") else 0
    if k in ("ImplicitCastExpr", "CStyleCastExpr"):
        v = static_value(n["inner"][-1], cx)
        if v is None:
            return None
        ck = n.get("castKind")
        if ck in ("LValueToRValue", "NoOp"):
            return v
        if ck == "IntegralToBoolean":
            return 1 if v != 0 else 0
        if ck == "IntegralCast":
            try:
                w, signed = width(ctype(n))
            except Unsupported:
                return None
            return v if (signed and -(1 << (w - 1)) <= v < (1 << (w - 1))) else (v % (1 << w) if not signed else None)
        return None
    if k == "DeclRefExpr":
        return cx.consts.get(n["referencedDecl"]["name"])
    if k == "UnaryOperator" and n.get("opcode") == "!":
        v = static_value(n["inner"][0], cx)
        return None if v is None else (1 if v == 0 else 0)
    if k == "BinaryOperator" and n.get("opcode") in ("==", "!="):
        a, b = (static_value(x, cx) for x in n["inner"])
        if a is None or b is None:
            return None
        return int((a == b) == (n["opcode"] == "=="))
    return None

def helper_decl(name, cx):
    """FunctionDecl (with body) of a `static` function of this translation unit, or None"""
    if name in cx.fn_names or name in cx.known or name in cx.known_ub or name in cx.inline_stack:
        return None
    for d in cx.tu():
        for x in (d.get("inner", []) if d.get("kind") == "TranslationUnitDecl" else [d]):
            if x.get("kind") == "FunctionDecl" and x.get("name") == name and x.get("storageClass") == "static" \
                    and any(c.get("kind") == "CompoundStmt" for c in x.get("inner", [])):
                return x
    return None

def helper_call(n, cx):
    """(CallExpr node, FunctionDecl) if n (through casts / parens) is a call of an inlinable helper"""
    m = cast.strip(n)
    if m.get("kind") != "CallExpr":
        return None
    f = cast.strip(m["inner"][0])
    if f.get("kind") != "DeclRefExpr" or f["referencedDecl"].get("kind") != "FunctionDecl":
        return None
    fd = helper_decl(f["referencedDecl"]["name"], cx)
    return (m, fd) if fd is not None else None

def nested_helper_calls(n, cx, cond=False, top=True):
    """helper calls inside expression n in evaluation order; one under a conditionally evaluated operand is Unsupported"""
    out = []
    if not isinstance(n, dict):
        return out
    k = n.get("kind")
    if k == "CallExpr":
        f = cast.strip(n["inner"][0])
        if f.get("kind") == "DeclRefExpr" and f["referencedDecl"].get("kind") == "FunctionDecl" and helper_decl(f["referencedDecl"]["name"], cx) is not None:
            for a in n["inner"][1:]:
                out += nested_helper_calls(a, cx, cond, False)
            if cond:
                fd = helper_decl(f["referencedDecl"]["name"], cx)
                pure = all(not ctype(p_).endswith("*") for p_ in fd.get("inner", []) if p_.get("kind") == "ParmVarDecl") \
                    and not contains_kind(fd, ("CallExpr",)) and not cx.ub
                if not pure:
                    raise Unsupported("helper call under a conditionally evaluated operand")
            out.append(n)
            return out
    if k == "ConditionalOperator":
        c, a, b = n["inner"]
        return nested_helper_calls(c, cx, cond, False) + nested_helper_calls(a, cx, True, False) + nested_helper_calls(b, cx, True, False)
    if k == "BinaryOperator" and n.get("opcode") in ("&&", "||"):
        a, b = n["inner"]
        return nested_helper_calls(a, cx, cond, False) + nested_helper_calls(b, cx, True, False)
    for c in n.get("inner", []):
        out += nested_helper_calls(c, cx, cond, False)
    return out

def replace_node(tree, old, new):
    """copy of tree with the node `old` (identity) replaced by `new`"""
    if tree is old:
        return new
    if isinstance(tree, dict):
        if "inner" in tree:
            t = dict(tree)
            t["inner"] = [replace_node(c, old, new) for c in tree["inner"]]
            return t
    return tree

def hoist(s, cx):
    """a statement whose expressions contain helper calls in nested positions -> [T c = call; ...; s'] or None"""
    k = s.get("kind")
    if k == "ReturnStmt" and s.get("inner"):
        exprs = [s["inner"][0]]
    elif k == "IfStmt":
        exprs = [s["inner"][0]]
    elif k == "DeclStmt":
        exprs = []
        for d in s.get("inner", []):
            init = [x for x in d.get("inner", []) if x.get("kind") not in ("FullComment",)]
            if init:
                exprs.append(init[-1])
    elif k in ("BinaryOperator", "CompoundAssignOperator", "CallExpr", "UnaryOperator"):
        exprs = [s]
    else:
        return None
    calls = []
    for e in exprs:
        calls += nested_helper_calls(e, cx)
    # a call that IS the whole right-hand side / initialiser / statement is handled directly
    direct = []
    if k == "DeclStmt" and len(s.get("inner", [])) == 1:
        init = [x for x in s["inner"][0].get("inner", []) if x.get("kind") not in ("FullComment",)]
        if init and helper_call(init[-1], cx):
            direct.append(helper_call(init[-1], cx)[0])
    if k == "BinaryOperator" and s.get("opcode") == "=" and helper_call(s["inner"][1], cx):
        direct.append(helper_call(s["inner"][1], cx)[0])
    if k == "CallExpr" and helper_call(s, cx):
        direct.append(s)
    calls = [c for c in calls if not any(c is d for d in direct)]
    if not calls:
        return None
    pre = []
    for c in calls:
        cx.inline_n += 1
        tmp = "c%d__" % cx.inline_n
        t = c.get("type", {})
        if ctype(c) == "void":
            raise Unsupported("void helper call inside an expression")
        ref = {"kind": "DeclRefExpr", "type": t, "valueCategory": "prvalue",
               "referencedDecl": {"kind": "VarDecl", "name": tmp, "type": t, "id": "tmp" + tmp}}
        pre.append({"kind": "DeclStmt", "inner": [{"kind": "VarDecl", "name": tmp, "type": t, "inner": [c]}]})
        s = replace_node(s, c, ref)
    return pre + [s]

def rename_decls(fd, suffix):
    """deep copy of a FunctionDecl in which every parameter / local it declares is renamed with the suffix"""
    ids = {}
    def collect(n):
        if isinstance(n, dict):
            if n.get("kind") in ("ParmVarDecl", "VarDecl") and "id" in n and "name" in n:
                ids[n["id"]] = n["name"] + suffix
            for c in n.get("inner", []):
                collect(c)
    collect(fd)
    def copy(n):
        if isinstance(n, dict):
            m = {}
            for k, v in n.items():
                if k == "inner":
                    m[k] = [copy(c) for c in v]
                elif k == "referencedDecl" and isinstance(v, dict) and v.get("id") in ids:
                    w = dict(v); w["name"] = ids[v["id"]]; m[k] = w
                else:
                    m[k] = v
            if n.get("kind") in ("ParmVarDecl", "VarDecl") and n.get("id") in ids:
                m["name"] = ids[n["id"]]
            return m
        return n
    return copy(fd)

def inline_call(call, fd, target, rest, cx, ret):
    """`target = f(args); rest` (target None: the value is dropped) with the body of the static helper f in place"""
    name = fd["name"]
    if contains_kind(fd, ("GotoStmt", "LabelStmt", "WhileStmt", "ForStmt", "DoStmt", "SwitchStmt")):
        raise Unsupported("helper %s: loop / goto / switch in an inlined helper" % name)
    if fd.get("variadic"):
        raise Unsupported("variadic helper")
    cx.inline_n += 1
    fd = rename_decls(fd, "__%d" % cx.inline_n)
    params = [p for p in fd.get("inner", []) if p.get("kind") == "ParmVarDecl"]
    body = [x for x in fd.get("inner", []) if x.get("kind") == "CompoundStmt"][0]
    args = call["inner"][1:]
    if len(args) != len(params):
        raise Unsupported("helper argument count")
    binds, chk = [], []
    for prm, a in zip(params, args):
        pt, pn = ctype(prm), prm["name"]
        if pt in FLOATS:
            fp = float_param(a, cx)
            m = a
            while m.get("kind") in ("ParenExpr",) or (m.get("kind") == "ImplicitCastExpr" and m.get("castKind") in ("LValueToRValue", "NoOp")):
                m = m["inner"][-1]
            if fp is None or m.get("kind") != "DeclRefExpr" or cx.floats[fp] != FLOATS[pt]:
                raise Unsupported("floating-point argument of a helper")
            cx.floats[pn] = FLOATS[pt]; cx.bound.add(pn)
            binds.append("let v_%s := v_%s in\n  " % (pn, fp))
        elif pt.endswith("*"):
            aa = cast.strip(a)
            if aa.get("kind") == "UnaryOperator" and aa.get("opcode") == "&":
                v = cast.strip(aa["inner"][0])
                if v.get("kind") == "DeclRefExpr" and v["referencedDecl"].get("kind") in ("VarDecl", "ParmVarDecl") \
                        and v["referencedDecl"]["name"] in cx.bound and v["referencedDecl"]["name"] not in cx.floats:
                    width(ctype(v))
                    if width(pt[:-1].strip()) != width(ctype(v)):
                        raise Unsupported("pointer argument of a different integer type")
                    cx.deref[pn] = "v_" + v["referencedDecl"]["name"]
                    continue
                raise Unsupported("address argument of a helper")
            if aa.get("kind") == "DeclRefExpr":
                an = aa["referencedDecl"]["name"]
                if is_status(an, cx):
                    cx.status_alias.add(pn); continue
                if deref_var(an, cx):
                    cx.deref[pn] = deref_var(an, cx); continue
                if an in cx.buffers:
                    cx.buffers.add(pn); continue
                if an in cx.sources:
                    cx.sources.add(pn); continue
                if an in cx.bytes:
                    cx.bytes[pn] = cx.bytes[an]; continue
            raise Unsupported("pointer argument of a helper")
        else:
            width(pt)
            binds.append("let v_%s := %s in\n  " % (pn, E(a, cx)))
            chk += cx.take()
            cx.bound.add(pn)
    rt = ctype(fd).split("(")[0].strip()
    if rt != "void":
        width(rt)
    saved = (cx.ret_mode, list(cx.loop_stack), list(cx.end_stack), list(cx.ret_stack), list(cx.inline_stack))
    def resume(e):
        """back in the caller: bind the returned value, go on with the rest"""
        inner = (cx.ret_mode, cx.loop_stack, cx.end_stack, cx.ret_stack, cx.inline_stack)
        cx.ret_mode, cx.loop_stack, cx.end_stack, cx.ret_stack, cx.inline_stack = saved[0], list(saved[1]), list(saved[2]), list(saved[3]), list(saved[4])
        try:
            if target is not None:
                if e is None:
                    raise Unsupported("void helper used as a value")
                cx.unassigned.discard(target); cx.bound.add(target)
                old_c = dict(cx.consts)
                if cx.last_return_const is not None:
                    cx.consts[target] = cx.last_return_const
                else:
                    cx.consts.pop(target, None)
                try:
                    return "let v_%s := %s in\n  %s" % (target, e, S(rest, cx, ret))
                finally:
                    cx.consts = old_c
            return S(rest, cx, ret)
        finally:
            cx.ret_mode, cx.loop_stack, cx.end_stack, cx.ret_stack, cx.inline_stack = inner
    cx.ret_mode = "int"
    cx.loop_stack = []          # the helper's body is not a loop body: its returns are calls of `resume`
    cx.inline_stack = cx.inline_stack + [name]
    cx.ret_stack = cx.ret_stack + [resume]
    cx.end_stack = cx.end_stack + [(lambda: resume(None))] if rt == "void" else [x for x in cx.end_stack if False]
    try:
        txt = S([body], cx, ret)
    finally:
        cx.ret_mode, cx.loop_stack, cx.end_stack, cx.ret_stack, cx.inline_stack = saved[0], list(saved[1]), list(saved[2]), list(saved[3]), list(saved[4])
    return guard(chk, "".join(binds) + txt, cx)

def local_update(s, cx):
    """`x op= e`, `x++`, `x--` on an integer local as a statement -> (name, new value text), or None"""
    k = s.get("kind")
    if k == "UnaryOperator" and s.get("opcode") in ("++", "--"):
        v = cast.strip(s["inner"][0])
        if v.get("kind") != "DeclRefExpr" or v["referencedDecl"].get("kind") != "VarDecl" or v["referencedDecl"]["name"] not in cx.bound:
            return None
        name = v["referencedDecl"]["name"]
        w, signed = width(ctype(v))
        r = "(%s %s 1)" % (E(v, cx), "+" if s["opcode"] == "++" else "-")
        return name, (r if signed else wrapz(w, r))
    if k == "CompoundAssignOperator":
        lhs, rhs = s["inner"]
        v = cast.strip(lhs)
        if v.get("kind") != "DeclRefExpr" or v["referencedDecl"].get("kind") not in ("VarDecl", "ParmVarDecl") or v["referencedDecl"]["name"] not in cx.bound:
            return None
        name = v["referencedDecl"]["name"]
        w, signed = width(ctype(v))
        if signed:
            raise Unsupported("compound assignment to a signed local")
        op = s["opcode"][:-1]
        ev, er = E(v, cx), E(rhs, cx)
        if op in ("+", "-", "*"):
            return name, wrapz(w, "(%s %s %s)" % (ev, op, er))
        if op in (">>", "<<"):
            wl = max(w, 32)
            lv = lit(rhs)
            if not (lv is not None and 0 <= lv < wl):
                cx.need("((0 <=? %s) && (%s <? %d))" % (er, er, wl))
            return name, ("(Z.shiftr %s %s)" % (ev, er) if op == ">>" else wrapz(w, "(Z.shiftl %s %s)" % (ev, er)))
        if op in ("/", "%"):
            lv = lit(rhs)
            if lv is None or lv == 0:
                if not cx.ub:
                    raise Unsupported("division by a non-literal")
                cx.need("(nz %s)" % er)
            return name, "(%s %s %s)" % (ev, "/" if op == "/" else "mod", er)
        if op == "|":
            return name, wrapz(w, "(Z.lor %s %s)" % (ev, er))
        if op == "&":
            return name, wrapz(w, "(Z.land %s %s)" % (ev, er))
        raise Unsupported("compound assignment " + s["opcode"])
    return None

def encoder_call(n, cx):
    """n (through casts / parens) is a call of a translated encoder on the caller's buffer"""
    m = cast.strip(n)
    if m.get("kind") != "CallExpr":
        return False
    f = cast.strip(m["inner"][0])
    return f.get("kind") == "DeclRefExpr" and f["referencedDecl"]["name"] in cx.known and "buffer" in cx.known[f["referencedDecl"]["name"]]

def encoder_stmt(call, target, ttype, rest, cx, ret):
    """`size_t x = _cbor_encode_..(.., buffer, ..); rest`: the callee's stores (at buffer[0..]) follow the caller's"""
    if width(ttype) != (64, False):
        raise Unsupported("encoder result stored in a narrower variable")
    cx.tailcall_pair = False
    e = E(cast.strip(call), cx)
    cx.tailcall_pair = False
    chk = cx.take()
    cx.stored = True
    cx.bound.add(target); cx.unassigned.discard(target)
    return guard(chk, "let '(v_%s, st_) := %s in\n  let stores := stores ++ st_ in\n  %s" % (target, e, S(rest, cx, ret)), cx)

def is_ub_call(n, cx):
    m = cast.strip(n)
    if m.get("kind") != "CallExpr":
        return False
    f = cast.strip(m["inner"][0])
    return f.get("kind") == "DeclRefExpr" and f["referencedDecl"]["name"] in cx.known_ub

def ub_call(n, cx):
    """a call of a ub-mode callee with in/out parameters -> (callee text, [names the outputs are bound to]) or None"""
    m = cast.strip(n)
    if m.get("kind") != "CallExpr":
        return None
    f = cast.strip(m["inner"][0])
    if not (f.get("kind") == "DeclRefExpr" and f["referencedDecl"]["name"] in cx.known_ub):
        return None
    name = f["referencedDecl"]["name"]
    kinds = cx.known_ub[name]
    args = m["inner"][1:]
    if len(args) != len(kinds):
        raise Unsupported("call argument count")
    parts, outs = [], []
    for a, kd in zip(args, kinds):
        if kd == "int":
            parts.append(E(a, cx))
        elif kd == "inout":
            aa = cast.strip(a)
            if aa.get("kind") == "UnaryOperator" and aa.get("opcode") == "&":
                v = cast.strip(aa["inner"][0])
                if v.get("kind") == "DeclRefExpr" and v["referencedDecl"].get("kind") == "VarDecl" and v["referencedDecl"]["name"] in cx.bound:
                    nm = v["referencedDecl"]["name"]
                    width(ctype(v))
                    if nm in cx.unassigned:
                        if not cx.indet:
                            raise Unsupported("address of the uninitialised local %s passed to a callee" % nm)
                        if nm not in cx.indet_params:
                            cx.indet_params.append(nm)
                        parts.append("(u_ %d)" % cx.indet_params.index(nm))
                    else:
                        parts.append("v_" + nm)
                    outs.append("v_" + nm)
                    continue
            if aa.get("kind") == "DeclRefExpr" and aa["referencedDecl"]["name"] in cx.inouts:
                parts.append("p_" + aa["referencedDecl"]["name"]); outs.append("p_" + aa["referencedDecl"]["name"])
                continue
            raise Unsupported("in/out argument")
        else:
            raise Unsupported("call argument kind")
    if len(set(outs)) != len(outs):
        raise Unsupported("the same variable passed twice by address")
    return "(g%s %s)" % (name, " ".join(parts)), outs

def call_stmt(call, target, rest, cx, ret):
    """`target = f(&a, &b, e)` / `f(&a, &b, e)` as a statement (f in ub mode: None propagates)"""
    if not cx.ub:
        raise Unsupported("call of a ub-mode function from a function outside ub mode")
    txt, outs = call
    chk = cx.take()
    for o in outs:
        if o.startswith("v_"):
            cx.unassigned.discard(o[2:]); cx.consts.pop(o[2:], None)
    if target is not None:
        cx.unassigned.discard(target)
    lets = "".join("let %s := o%d_ in\n  " % (o, i) for i, o in enumerate(outs))
    if target is not None:
        lets += "let v_%s := r_ in\n  " % target
    pat = "(" + ", ".join(["r_"] + ["o%d_" % i for i in range(len(outs))]) + ")"
    body = S(rest, cx, ret)
    return guard(chk, "match %s with\n  | None => %s\n  | Some %s =>\n  %s%s\n  end" % (txt, cx.fail(), pat, lets, body), cx)

def goto_code(tid, cx, ret):
    """the code a forward goto continues with: from the label to the end of the function"""
    if tid in cx.active_labels:
        raise Unsupported("backward goto")
    cx.active_labels.add(tid)
    try:
        return S(cx.labels[tid], cx, ret)
    finally:
        cx.active_labels.discard(tid)

def S(stmts, cx, ret):
    """CPS translation of a statement list; `ret(e)` renders a return of expression text e"""
    if not stmts:
        if cx.end_stack:
            return cx.end_stack[-1]()
        raise Unsupported("control reaches the end of a non-void function")
    s, rest = stmts[0], stmts[1:]
    k = s.get("kind")
    if k in ("ParagraphComment", "FullComment", "NullStmt"):
        return S(rest, cx, ret)
    if k == "CompoundStmt":
        return S([x for x in s.get("inner", [])] + rest, cx, ret)
    if k == "ReturnStmt" and cx.loop_stack and not cx.ret_stack:
        # leave the loop with an exit code; the return itself is evaluated after the loop, in the state reached
        fr = cx.loop_stack[-1]
        fr["has_exit"] = True
        code = 2 + len(fr["gotos"]) + len(fr["returns"])
        fr["returns"].append((code, s))
        return "(let x_exit := %d in %s)" % (code, fr["tup"])
    h = hoist(s, cx)
    if h is not None:
        return S(h + rest, cx, ret)
    if k == "ReturnStmt" and cx.ret_stack:
        # return of an inlined helper: hand the value to the call site
        if not s.get("inner"):
            return cx.ret_stack[-1](None)
        cx.tailcall_pair = False
        e = E(s["inner"][0], cx)
        if cx.tailcall_pair:
            raise Unsupported("encoder call in an inlined helper")
        chk = cx.take()
        cx.last_return_const = static_value(s["inner"][0], cx)
        try:
            return guard(chk, cx.ret_stack[-1](e), cx)
        finally:
            cx.last_return_const = None
    if k == "ReturnStmt":
        if cx.loop_stack:
            raise Unsupported("return inside a loop")
        if cx.ret_mode == "ptr" and cx.granted:
            r = s["inner"][0]
            fin = ", ".join("s_" + f for f in cx.sfields[1]) if cx.sfields else ""
            if is_nullptr(r, cx):
                return "(%s, true%s)" % (cx.req or "None", ", " + fin if fin else "")
            if is_request(r, cx):
                nm = cast.strip(r)["referencedDecl"]["name"]
                return "(q_%s, negb a_granted%s)" % (nm, ", " + fin if fin else "")
            raise Unsupported("returned pointer")
        if cx.ret_mode == "ptr":
            e = P(s["inner"][0], cx)
            return guard(cx.take(), e, cx)
        if cx.ret_mode == "float":
            e = F(s["inner"][0], cx)
            return guard(cx.take(), ret(e), cx)
        cx.tailcall_pair = False
        e = E(s["inner"][0], cx)
        chk = cx.take()
        if cx.tailcall_pair:
            if cx.stored:
                raise Unsupported("tail call into an encoder after own stores")
            cx.tailcall_pair = False
            return guard(chk, "(Some %s)" % e if cx.ub else e, cx)
        return guard(chk, ret(e), cx)
    if k == "DeclStmt":
        out = []
        for d in s.get("inner", []):
            if d.get("kind") != "VarDecl":
                raise Unsupported("declaration")
            if d.get("storageClass"):
                raise Unsupported("local with a storage class")
            if d["name"] in cx.bound or d["name"] in cx.unions:
                # AUDIT2: statements are flattened, so an inner declaration would stay visible after its block
                # (a shadowing `size_t sum` in a nested block silently replaced the outer one)
                raise Unsupported("second declaration of %s (shadowing or sibling scope)" % d["name"])
            init = [x for x in d.get("inner", []) if x.get("kind") not in ("FullComment",)]
            t = ctype(d)
            if t.startswith("union "):
                if not init:
                    cx.unions[d["name"]] = None      # set by a later `helper.as_float = value`
                    continue
                fp = union_init(init[-1], cx)
                if fp is None:
                    raise Unsupported("union local")
                cx.unions[d["name"]] = fp
                continue
            if t in FLOATS:
                if cx.ret_mode != "float":
                    raise Unsupported("floating-point local")
                cx.flocals.add(d["name"]); cx.bound.add(d["name"])
                if not init:
                    cx.unassigned.add(d["name"])
                    continue
                out.append(("f_" + d["name"], F(init[-1], cx), cx.take()))
                cx.unassigned.discard(d["name"])
                continue
            if t.endswith("*") and cx.ret_mode == "ptr" and cx.granted and (not init or is_null(init[-1])):
                cx.ptrlocals.add(d["name"])
                (cx.nullptrs if init else cx.unsetptrs).add(d["name"])
                continue
            if t.endswith("*"):
                if cx.ret_mode != "ptr" or not init:
                    raise Unsupported("pointer local")
                out.append(("q_" + d["name"], P(init[-1], cx), cx.take()))
                cx.ptrlocals.add(d["name"])
                if cx.granted:
                    ii = cast.strip(init[-1])
                    if cx.req is not None or not (ii.get("kind") == "CallExpr"):
                        raise Unsupported("more than one allocator request / a pointer local that is not a request")
                    cx.requests.add(d["name"]); cx.req = "q_" + d["name"]
                continue
            width(t)
            if init and encoder_call(init[-1], cx) and d is s.get("inner", [])[-1] and not out:
                return encoder_stmt(init[-1], d["name"], t, rest, cx, ret)
            if init and helper_call(init[-1], cx) and d is s.get("inner", [])[-1] and not out:
                c, fd = helper_call(init[-1], cx)
                if cast.strip(init[-1]) is init[-1] or True:
                    cx.inline_n += 1
                    tmp = "c%d__" % cx.inline_n
                    d2 = dict(d)
                    d2["inner"] = [x for x in d.get("inner", []) if x is not init[-1]] + [replace_node(init[-1], c, {"kind": "DeclRefExpr", "type": c.get("type", {}),
                                   "referencedDecl": {"kind": "VarDecl", "name": tmp, "type": c.get("type", {})}})]
                    return inline_call(c, fd, tmp, [{"kind": "DeclStmt", "inner": [d2]}] + rest, cx, ret)
            if not init:
                cx.unassigned.add(d["name"]); cx.bound.add(d["name"])
                continue
            if is_ub_call(init[-1], cx) and d is s.get("inner", [])[-1] and not out:
                cx.bound.add(d["name"])
                return call_stmt(ub_call(init[-1], cx), d["name"], rest, cx, ret)
            sv = static_value(init[-1], cx)
            out.append(("v_" + d["name"], E(init[-1], cx), cx.take()))
            cx.bound.add(d["name"]); cx.unassigned.discard(d["name"])
            i0 = cast.strip(init[-1])
            if sv is not None and i0.get("kind") == "DeclRefExpr" and i0["referencedDecl"]["name"] in cx.consts:
                cx.consts[d["name"]] = sv        # a copy of a helper's literal result
            else:
                cx.consts.pop(d["name"], None)
        txt = S(rest, cx, ret)
        for nm, e, chk in reversed(out):
            txt = guard(chk, "let %s := %s in\n  %s" % (nm, e, txt), cx)
        return txt
    if k == "IfStmt" and static_value(s["inner"][0], cx) is not None:
        inner = [x for x in s["inner"]]
        if static_value(inner[0], cx) != 0:
            return S([inner[1]] + rest, cx, ret)
        return S(([inner[2]] if len(inner) > 2 else []) + rest, cx, ret)
    if k == "IfStmt":
        inner = [x for x in s["inner"]]
        c = E(inner[0], cx)
        chk = cx.take()
        then = inner[1]
        els = inner[2] if len(inner) > 2 else None
        snap = (set(cx.unassigned), set(cx.bound), dict(cx.unions), set(cx.ptrlocals), cx.stored, set(cx.status_set), cx.req, set(cx.requests))
        consts0 = dict(cx.consts); np0 = (set(cx.nullptrs), set(cx.unsetptrs))
        t = S([then] + rest, cx, ret)
        cx.unassigned, cx.bound, cx.unions, cx.ptrlocals, cx.stored, cx.status_set = set(snap[0]), set(snap[1]), dict(snap[2]), set(snap[3]), snap[4], set(snap[5])
        cx.req, cx.requests = snap[6], set(snap[7])
        cx.consts = dict(consts0); cx.nullptrs, cx.unsetptrs = set(np0[0]), set(np0[1])
        e = S(([els] if els else []) + rest, cx, ret)
        return guard(chk, "(if nz %s then\n  %s\n  else\n  %s)" % (c, t, e), cx)
    if k == "CallExpr" and helper_call(s, cx):
        c, fd = helper_call(s, cx)
        return inline_call(c, fd, None, rest, cx, ret)
    if k == "BinaryOperator" and s.get("opcode") == "=" and helper_call(s["inner"][1], cx):
        l0 = cast.strip(s["inner"][0])
        if l0.get("kind") == "DeclRefExpr" and l0["referencedDecl"]["name"] in cx.bound and l0["referencedDecl"]["name"] not in cx.floats:
            w0, s0 = width(ctype(l0))
            c, fd = helper_call(s["inner"][1], cx)
            cx.inline_n += 1
            tmp = "c%d__" % cx.inline_n
            # the conversion of the returned value to the variable's type is applied to the temporary
            asg = dict(s); asg["inner"] = [s["inner"][0], replace_node(s["inner"][1], c, {"kind": "DeclRefExpr", "type": c.get("type", {}),
                   "referencedDecl": {"kind": "VarDecl", "name": tmp, "type": c.get("type", {})}})]
            return inline_call(c, fd, tmp, [asg] + rest, cx, ret)
        raise Unsupported("assignment of a helper's result")
    if k == "CallExpr" and is_ub_call(s, cx):
        return call_stmt(ub_call(s, cx), None, rest, cx, ret)
    if k == "BinaryOperator" and s.get("opcode") == "=":
        lhs, rhs = s["inner"]
        l = cast.strip(lhs)
        if l.get("kind") == "MemberExpr" and not l.get("isArrow"):
            ub_ = cast.strip(l["inner"][0])
            if ub_.get("kind") == "DeclRefExpr" and ub_["referencedDecl"]["name"] in cx.unions and ctype(l) in FLOATS:
                # helper.as_float = value
                m = rhs
                while m.get("kind") in ("ParenExpr",) or (m.get("kind") == "ImplicitCastExpr" and m.get("castKind") in ("LValueToRValue", "NoOp")):
                    m = m["inner"][-1]
                if m.get("kind") == "DeclRefExpr" and m["referencedDecl"]["name"] in cx.floats and cx.floats[m["referencedDecl"]["name"]] == FLOATS[ctype(l)]:
                    cx.unions[ub_["referencedDecl"]["name"]] = m["referencedDecl"]["name"]
                    cx.union_member[ub_["referencedDecl"]["name"]] = l["name"]
                    return S(rest, cx, ret)
                raise Unsupported("union member assignment")
        if cx.granted and l.get("kind") == "DeclRefExpr" and l["referencedDecl"]["name"] in cx.ptrlocals:
            nm = l["referencedDecl"]["name"]
            if nm in cx.requests:
                raise Unsupported("pointer local assigned after the request")
            if is_null(rhs):
                cx.unsetptrs.discard(nm); cx.nullptrs.add(nm)
                return S(rest, cx, ret)
            rr = cast.strip(rhs)
            if rr.get("kind") == "CallExpr" and cx.req is None:
                e = P(rhs, cx)
                chk = cx.take()
                cx.unsetptrs.discard(nm); cx.nullptrs.discard(nm)
                cx.requests.add(nm); cx.req = "q_" + nm
                return guard(chk, "let q_%s := %s in\n  %s" % (nm, e, S(rest, cx, ret)), cx)
            raise Unsupported("pointer assignment")
        if cx.granted:
            tgt = None
            if l.get("kind") == "UnaryOperator" and l.get("opcode") == "*":
                tgt = cast.strip(l["inner"][0])
            elif l.get("kind") == "MemberExpr" and l.get("isArrow"):
                tgt = cast.strip(l["inner"][0])
            if tgt is not None and tgt.get("kind") == "DeclRefExpr" and tgt["referencedDecl"]["name"] in cx.requests:
                # a store into the freshly allocated block: not rendered (its content is not part of the outcome)
                if contains_kind(rhs, ("CallExpr",)):
                    raise Unsupported("call in a store into fresh memory")
                return S(rest, cx, ret)
            if l.get("kind") == "MemberExpr" and l.get("isArrow") and tgt.get("kind") == "DeclRefExpr" and cx.sfields and tgt["referencedDecl"]["name"] == cx.sfields[0]:
                if l["name"] in cx.sfields[1]:
                    er = E(rhs, cx)
                    return "let s_%s := %s in\n  %s" % (l["name"], er, S(rest, cx, ret))
                if l["name"] in cx.sfields[2]:
                    if contains_kind(rhs, ("CallExpr",)):
                        raise Unsupported("call in a pointer field update")
                    return S(rest, cx, ret)      # pointer field: not rendered
        if l.get("kind") == "UnaryOperator" and l.get("opcode") == "*":
            pp = cast.strip(l["inner"][0])
            if pp.get("kind") == "DeclRefExpr" and deref_var(pp["referencedDecl"]["name"], cx):
                width(ctype(l))
                er = E(rhs, cx)
                chk = cx.take()
                dv = deref_var(pp["referencedDecl"]["name"], cx)
                if dv.startswith("v_"):
                    cx.unassigned.discard(dv[2:]); cx.consts.pop(dv[2:], None)
                return guard(chk, "let %s := %s in\n  %s" % (dv, er, S(rest, cx, ret)), cx)
            if cx.status and pp.get("kind") == "DeclRefExpr" and is_status(pp["referencedDecl"]["name"], cx):
                cl = cast.strip(rhs)
                if cl.get("kind") == "CompoundLiteralExpr" and cl.get("inner") and cl["inner"][0].get("kind") == "InitListExpr":
                    vals = [x for x in cl["inner"][0].get("inner", [])]
                    if len(vals) != len(cx.status[1]):
                        raise Unsupported("compound literal does not initialise every field")
                    es = [E(v, cx) for v in vals]
                    chk = cx.take()
                    for fn in cx.status[1]:
                        cx.status_set.add(fn)
                    lets = "".join("let t_%s := %s in\n  " % (fn, e) for fn, e in zip(cx.status[1], es))
                    return guard(chk, lets + S(rest, cx, ret), cx)
                raise Unsupported("assignment to the out-parameter")
        if l.get("kind") == "MemberExpr" and l.get("isArrow") and cx.status:
            b0 = cast.strip(l["inner"][0])
            if b0.get("kind") == "DeclRefExpr" and is_status(b0["referencedDecl"]["name"], cx) and l["name"] in cx.status[1]:
                er = E(rhs, cx)
                chk = cx.take()
                cx.status_set.add(l["name"])
                return guard(chk, "let t_%s := %s in\n  %s" % (l["name"], er, S(rest, cx, ret)), cx)
        if l.get("kind") == "DeclRefExpr" and l["referencedDecl"]["name"] in cx.bound and encoder_call(rhs, cx):
            return encoder_stmt(rhs, l["referencedDecl"]["name"], ctype(l), rest, cx, ret)
        if l.get("kind") == "DeclRefExpr" and l["referencedDecl"]["name"] in cx.flocals:
            er = F(rhs, cx)
            chk = cx.take()
            cx.unassigned.discard(l["referencedDecl"]["name"])
            return guard(chk, "let f_%s := %s in\n  %s" % (l["referencedDecl"]["name"], er, S(rest, cx, ret)), cx)
        if l.get("kind") == "DeclRefExpr" and l["referencedDecl"]["name"] in cx.bound and is_ub_call(rhs, cx):
            width(ctype(l))
            return call_stmt(ub_call(rhs, cx), l["referencedDecl"]["name"], rest, cx, ret)
        if l.get("kind") == "ArraySubscriptExpr":
            base, idx = l["inner"]
            b = cast.strip(base)
            if b.get("kind") == "DeclRefExpr" and b["referencedDecl"]["name"] in cx.buffers:
                w, _ = width(ctype(l))
                cx.stored = True
                ei, er = E(idx, cx), E(rhs, cx)
                chk = cx.take()
                return guard(chk, "let stores := stores ++ [(%s, %s)] in\n  %s" % (ei, er, S(rest, cx, ret)), cx)
        if l.get("kind") == "MemberExpr" and l.get("isArrow"):
            b = cast.strip(l["inner"][0])
            if b.get("kind") == "DeclRefExpr" and b["referencedDecl"]["name"] == cx.result:
                er = E(rhs, cx)
                chk = cx.take()
                return guard(chk, "let r_%s := %s in\n  %s" % (l["name"], er, S(rest, cx, ret)), cx)
        if l.get("kind") == "DeclRefExpr" and l["referencedDecl"]["name"] in cx.bound and l["referencedDecl"]["name"] not in cx.floats:
            width(ctype(l))
            er = E(rhs, cx)
            chk = cx.take()
            cx.consts.pop(l["referencedDecl"]["name"], None)
            cx.unassigned.discard(l["referencedDecl"]["name"])
            return guard(chk, "let v_%s := %s in\n  %s" % (l["referencedDecl"]["name"], er, S(rest, cx, ret)), cx)
        raise Unsupported("assignment target")
    if k == "CompoundAssignOperator" or (k == "UnaryOperator" and s.get("opcode") in ("++", "--")):
        if k == "CompoundAssignOperator":
            lhs, rhs = s["inner"]
            l = cast.strip(lhs)
            if l.get("kind") == "MemberExpr" and l.get("isArrow") and s.get("opcode") == "+=":
                b = cast.strip(l["inner"][0])
                if b.get("kind") == "DeclRefExpr" and b["referencedDecl"]["name"] == cx.result:
                    w, _ = width(ctype(l))
                    er = E(rhs, cx)
                    chk = cx.take()
                    return guard(chk, "let r_%s := %s in\n  %s" % (l["name"], wrapz(w, "(r_%s + %s)" % (l["name"], er)), S(rest, cx, ret)), cx)
        if cx.sfields:
            tgt0 = cast.strip(s["inner"][0])
            if tgt0.get("kind") == "MemberExpr" and tgt0.get("isArrow"):
                b0 = cast.strip(tgt0["inner"][0])
                if b0.get("kind") == "DeclRefExpr" and b0["referencedDecl"]["name"] == cx.sfields[0] and tgt0["name"] in cx.sfields[1]:
                    w = cx.sfields[1][tgt0["name"]]
                    cur = "s_" + tgt0["name"]
                    if k == "UnaryOperator":
                        new = wrapz(w, "(%s %s 1)" % (cur, "+" if s["opcode"] == "++" else "-"))
                    elif s.get("opcode") in ("+=", "-="):
                        new = wrapz(w, "(%s %s %s)" % (cur, s["opcode"][0], E(s["inner"][1], cx)))
                    else:
                        raise Unsupported("compound assignment to a struct field")
                    return "let %s := %s in\n  %s" % (cur, new, S(rest, cx, ret))
        u = local_update(s, cx)
        if u is not None:
            cx.consts.pop(u[0], None)
            chk = cx.take()
            return guard(chk, "let v_%s := %s in\n  %s" % (u[0], u[1], S(rest, cx, ret)), cx)
        raise Unsupported("compound assignment")
    if k == "SwitchStmt":
        parts = [x for x in s.get("inner", []) if x.get("kind")]
        if len(parts) != 2 or parts[1].get("kind") != "CompoundStmt":
            raise Unsupported("switch shape")
        cond, body = parts
        width(ctype(cond))
        groups = []          # [labels (None = default)], statements
        for x in body.get("inner", []):
            labels = []
            while x.get("kind") in ("CaseStmt", "DefaultStmt"):
                if x["kind"] == "CaseStmt":
                    ins = [y for y in x["inner"] if y.get("kind")]
                    if len(ins) != 2:
                        raise Unsupported("case range")
                    v = static_value(ins[0], cx)
                    if v is None and ins[0].get("kind") == "ConstantExpr" and "value" in ins[0]:
                        v = int(ins[0]["value"])
                    if v is None:
                        raise Unsupported("case label")
                    labels.append(v); x = ins[1]
                else:
                    labels.append(None); x = [y for y in x["inner"] if y.get("kind")][-1]
            if labels:
                groups.append((labels, [x]))
            elif groups:
                groups[-1][1].append(x)
            else:
                raise Unsupported("statement before the first case")
        cx.inline_n += 1
        tmp = "sw%d__" % cx.inline_n
        ct = cond.get("type", {})
        ref = {"kind": "DeclRefExpr", "type": ct, "referencedDecl": {"kind": "VarDecl", "name": tmp, "type": ct}}
        chain = None
        default = None
        cases = []
        for gi, (labels, sts) in enumerate(groups):
            last = sts[-1].get("kind")
            if last == "BreakStmt":
                sts = sts[:-1]
            elif last != "ReturnStmt" and gi != len(groups) - 1:
                raise Unsupported("fall-through between cases")
            if any(contains_kind(x, ("BreakStmt",)) for x in sts):
                raise Unsupported("break inside a case")
            blk = {"kind": "CompoundStmt", "inner": sts}
            if None in labels:
                if default is not None:
                    raise Unsupported("two defaults")
                default = blk      # other labels of the same group are covered by "none of the other cases"
                others = [v for v in labels if v is not None]
                if others:
                    cases.append((others, blk))
            else:
                cases.append((labels, blk))
        def lit_node(v):
            return {"kind": "IntegerLiteral", "value": str(v), "type": {"qualType": "int"}}
        def eq(v):
            return {"kind": "BinaryOperator", "opcode": "==", "type": {"qualType": "int"}, "inner": [ref, lit_node(v)]}
        chain = default if default is not None else {"kind": "CompoundStmt", "inner": []}
        for labels, blk in reversed(cases):
            c = eq(labels[0])
            for v in labels[1:]:
                c = {"kind": "BinaryOperator", "opcode": "||", "type": {"qualType": "int"}, "inner": [c, eq(v)]}
            chain = {"kind": "IfStmt", "inner": [c, blk, chain]}
        decl = {"kind": "DeclStmt", "inner": [{"kind": "VarDecl", "name": tmp, "type": ct, "inner": [cond]}]}
        return S([decl, chain] + rest, cx, ret)
    if k == "LabelStmt":
        return S([x for x in s.get("inner", []) if x.get("kind")] + rest, cx, ret)
    if k == "GotoStmt":
        tid = s.get("targetLabelDeclId")
        if tid not in cx.labels:
            raise Unsupported("goto to an unknown / backward label")
        if cx.loop_stack:
            fr = cx.loop_stack[-1]
            fr["has_exit"] = True
            if tid not in fr["gotos"]:
                fr["gotos"][tid] = 2 + len(fr["gotos"]) + len(fr["returns"])
            code = fr["gotos"][tid]
            return "(let x_exit := %d in %s)" % (code, fr["tup"])
        return goto_code(tid, cx, ret)
    if k == "BreakStmt":
        if not cx.loop_stack:
            raise Unsupported("break outside a loop")
        fr = cx.loop_stack[-1]
        fr["has_exit"] = True
        return "(let x_exit := 1 in %s)" % fr["tup"]
    if k == "ContinueStmt":
        if not cx.loop_stack:
            raise Unsupported("continue outside a loop")
        return S(list(cx.loop_stack[-1]["inc"]), cx, ret)
    if k in ("WhileStmt", "ForStmt"):
        if cx.loop_stack:
            raise Unsupported("nested loop")
        if k == "WhileStmt":
            cond, body = s["inner"]
            init, inc = [], []
        else:
            parts = s["inner"]
            if len(parts) != 5:
                raise Unsupported("for statement shape")
            init0, condvar, cond, inc0, body = parts
            if condvar.get("kind"):
                raise Unsupported("for with a condition variable")
            if not cond.get("kind"):
                raise Unsupported("for without a condition")
            init = comma_split(init0) if init0.get("kind") else []
            inc = comma_split(inc0) if inc0.get("kind") else []
        if init:
            # for (init; cond; inc) body  ==  init; while (cond) { body; inc }   (a declaration in init stays visible: names are unique here)
            return S(init + [{"kind": "WhileStmt", "inner": [cond, {"kind": "CompoundStmt", "inner": [body]}], "_inc": inc}] + rest, cx, ret)
        inc = inc or s.get("_inc", [])
        body_stmts = [body]
        names, declared = set(), set()
        for st in body_stmts + inc:
            assigned_in(st, names, declared, cx)
        names -= declared
        state = sorted(names)
        for nm in state:
            cx.consts.pop(nm, None)
        if not state:
            raise Unsupported("loop without state")
        pre = ""
        for nm in state:
            if nm in cx.floats or nm not in cx.bound:
                raise Unsupported("loop assigns " + nm)
            if nm in cx.unassigned:
                if not cx.indet:
                    raise Unsupported("loop state variable %s has no value at loop entry" % nm)
                if nm not in cx.indet_params:
                    cx.indet_params.append(nm)
                pre += "let v_%s := (u_ %d) in\n  " % (nm, cx.indet_params.index(nm))
                cx.unassigned.discard(nm)
        has_exit = cx.ub or contains_kind(body, ("GotoStmt", "BreakStmt", "ReturnStmt"))
        vs = ["v_" + n for n in state] + (["x_exit"] if has_exit else [])
        tup = "(" + ", ".join(vs) + ")" if len(vs) > 1 else vs[0]
        pat = "'" + tup if len(vs) > 1 else vs[0]
        cond_txt = E(cond, cx)
        if cx.take():
            raise Unsupported("definedness test in a loop condition")
        fr = {"tup": tup, "inc": inc, "gotos": {}, "returns": [], "has_exit": has_exit}
        snap = (set(cx.unassigned), set(cx.bound), dict(cx.unions), set(cx.ptrlocals), cx.stored)
        cx.loop_stack.append(fr); cx.end_stack.append(lambda: tup)
        try:
            body_txt = S(body_stmts + list(inc), cx, ret)
        finally:
            cx.loop_stack.pop(); cx.end_stack.pop()
        if fr["has_exit"] and not has_exit:
            raise Unsupported("internal: exit discovered late")
        cx.unassigned, cx.bound, cx.unions, cx.ptrlocals, cx.stored = set(snap[0]), set(snap[1]), dict(snap[2]), set(snap[3]), snap[4]
        cx.loopvars.append(list(state) + (["exit"] if has_exit else []))
        cond_fun = "(fun %s => %snz %s)" % (pat, "(x_exit =? 0) && " if has_exit else "", cond_txt)
        body_fun = "(fun %s =>\n    %s)" % (pat, body_txt)
        after = S(rest, cx, ret)
        if has_exit:
            exits = [(code, ("goto", tid)) for tid, code in fr["gotos"].items()] + [(code, ("return", st)) for code, st in fr["returns"]]
            for code, (what, x) in sorted(exits, key=lambda kv: -kv[0]):
                snap2 = (set(cx.unassigned), set(cx.bound), dict(cx.unions), set(cx.ptrlocals), cx.stored, set(cx.status_set))
                ex = goto_code(x, cx, ret) if what == "goto" else S([x], cx, ret)
                cx.unassigned, cx.bound, cx.unions, cx.ptrlocals, cx.stored, cx.status_set = set(snap2[0]), set(snap2[1]), dict(snap2[2]), set(snap2[3]), snap2[4], set(snap2[5])
                after = "(if x_exit =? %d then\n  %s\n  else\n  %s)" % (code, ex, after)
            if cx.ub:
                after = "(if x_exit =? (-1) then None else\n  %s)" % after
            pre += "let x_exit := 0 in\n  "
        return "%s(let %s := wloop %s %s %s %s in\n  %s)" % (pre, pat, cx.fuel, cond_fun, body_fun, tup, after)
    raise Unsupported("statement " + str(k))

def translate_function(src, incs, defs, name, known, kinds, opts=None):
    """kinds: per parameter 'int' | 'buffer' | 'source' | 'result' | 'f32' | 'f64' | 'ptr'.
    opts: {'ub': True} -> option-valued (None = undefined behaviour); {'ret': 'ptr'} -> allocator request.
    Returns Gallina definition text."""
    opts = opts or {}
    docs = cast.ast_dump(src, incs, name, defs)
    fn, body = cast.function_body(docs, name)
    if fn is None:
        raise Unsupported("function not found")
    params = [p for p in fn.get("inner", []) if p.get("kind") == "ParmVarDecl"]
    if len(params) != len(kinds):
        raise Unsupported("parameter list changed")
    cx = Ctx(known)
    cx.src, cx.incs, cx.defs = src, incs, defs
    cx.fname = name
    cx.ub = bool(opts.get("ub"))
    cx.ret_mode = opts.get("ret", "int")
    cx.granted = bool(opts.get("granted"))
    cx.indet = bool(opts.get("indet"))
    cx.fuel = opts.get("fuel", "65%nat")
    top = [x for x in body.get("inner", [])]
    for i, st in enumerate(top):
        if st.get("kind") == "LabelStmt":
            cx.labels[st.get("declId")] = top[i:]
    args = []
    for p, kd in zip(params, kinds):
        cx.bound.add(p["name"])
        pt = ctype(p)
        if kd == "int":
            width(pt)
            args.append("(v_%s : Z)" % p["name"])
        elif kd in ("f32", "f64"):
            if FLOATS.get(pt) != int(kd[1:]):
                raise Unsupported("parameter %s is not a %s-bit float" % (p["name"], kd[1:]))
            cx.floats[p["name"]] = int(kd[1:]); args.append("(v_%s : Z)" % p["name"])
        elif kd == "ptr":
            if not pt.endswith("*"):
                raise Unsupported("parameter %s is not a pointer" % p["name"])
            cx.ptrs.add(p["name"])
        elif kd == "skip":
            cx.skipped.add(p["name"])
        elif kd.startswith("fields:"):
            sname = kd.split(":", 1)[1]
            if pt.replace(" ", "") != ("struct" + sname + "*"):
                raise Unsupported("parameter %s is not a struct %s pointer" % (p["name"], sname))
            ints, ptrs = {}, set()
            for fn, ft in cx.struct_fields(sname):
                if ft.strip().endswith("*"):
                    ptrs.add(fn)
                else:
                    ints[fn] = width(ft)[0]
            cx.sfields = (p["name"], ints, ptrs)
            args += ["(s_%s : Z)" % fn for fn in ints]
        elif kd == "inout":
            if not pt.endswith("*"):
                raise Unsupported("parameter %s is not a pointer" % p["name"])
            width(pt[:-1].strip())
            cx.inouts.append(p["name"]); args.append("(p_%s : Z)" % p["name"])
        elif kd.startswith("bytes:"):
            if pt.replace(" ", "") != "unsignedchar*":
                raise Unsupported("parameter %s is not a byte pointer" % p["name"])
            cx.bytes[p["name"]] = kd.split(":", 1)[1]; args.append("(v_%s : Z -> Z)" % p["name"])
        elif kd.startswith("status:"):
            sname = kd.split(":", 1)[1]
            if pt.replace(" ", "") != ("struct" + sname + "*"):
                raise Unsupported("parameter %s is not a struct %s pointer" % (p["name"], sname))
            flds = cx.struct_fields(sname)
            for fn, ft in flds:
                width(ft)
            cx.status = (p["name"], [fn for fn, ft in flds])
        elif kd == "buffer":
            cx.buffers.add(p["name"])
        elif kd == "source":
            cx.sources.add(p["name"]); args.append("(v_%s : Z -> Z)" % p["name"])
        elif kd == "result":
            cx.result = p["name"]; args += ["(r_read : Z)", "(r_status : Z)", "(r_required : Z)"]
    has_buf = bool(cx.buffers)
    for b_, l_ in cx.bytes.items():
        if l_ not in cx.bound:
            raise Unsupported("length parameter " + l_)
    cx.known_ub = known.get("__ub__", {})
    cx.fn_names = set(e[1] for e in FUNCTIONS)
    if cx.inouts:
        ret0 = lambda e: "(" + ", ".join([e] + ["p_" + n for n in cx.inouts]) + ")"
    elif cx.status:
        def ret0(e):
            for fn in cx.status[1]:
                if fn not in cx.status_set:
                    raise Unsupported("return before the out-parameter is assigned")
            return "(" + ", ".join([e] + ["t_" + fn for fn in cx.status[1]]) + ")"
    elif cx.result:
        ret0 = lambda e: "(%s, r_read, r_status, r_required)" % e
    elif has_buf:
        ret0 = lambda e: "(%s, stores)" % e
    else:
        ret0 = lambda e: e
    ret = (lambda e: "(Some %s)" % ret0(e)) if cx.ub else ret0
    txt = S([body], cx, ret)
    pre = "let stores := @nil (Z * Z) in\n  " if has_buf else ""
    if cx.granted:
        args.append("(a_granted : bool)")
    if cx.indet:
        # the values of locals that are indeterminate where the function first uses them: an oracle, by index
        args.append("(u_ : Z -> Z)")
    if opts.get("must_call") and ("(g%s " % opts["must_call"]) not in txt:
        raise Unsupported("the stores are not made through %s (the bridge relies on that)" % opts["must_call"])
    LOOPVARS[name] = cx.loopvars
    return "Definition g%s %s :=\n  %s%s." % (name, " ".join(args), pre, txt)

LOOPVARS = {}     # function -> [[names of the loop state components]] of the last translation

# (file, function, parameter kinds) in dependency order
FUNCTIONS = [
    ("cbor/internal/memory_utils.c", "_cbor_highest_bit", ["int"]),
    ("cbor/internal/memory_utils.c", "_cbor_safe_to_multiply", ["int", "int"]),
    ("cbor/internal/memory_utils.c", "_cbor_safe_to_add", ["int", "int"]),
    ("cbor/internal/memory_utils.c", "_cbor_safe_signaling_add", ["int", "int"]),
    ("cbor/serialization.c", "_cbor_encoded_header_size", ["int"]),
    ("cbor/internal/encoders.c", "_cbor_encode_uint8", ["int", "buffer", "int", "int"]),
    ("cbor/internal/encoders.c", "_cbor_encode_uint16", ["int", "buffer", "int", "int"]),
    ("cbor/internal/encoders.c", "_cbor_encode_uint32", ["int", "buffer", "int", "int"]),
    ("cbor/internal/encoders.c", "_cbor_encode_uint64", ["int", "buffer", "int", "int"]),
    ("cbor/encoding.c", "_cbor_encode_byte", ["int", "buffer", "int"]),
    ("cbor/internal/encoders.c", "_cbor_encode_uint", ["int", "buffer", "int", "int"]),
    ("cbor/encoding.c", "cbor_encode_uint8", ["int", "buffer", "int"]),
    ("cbor/encoding.c", "cbor_encode_uint16", ["int", "buffer", "int"]),
    ("cbor/encoding.c", "cbor_encode_uint32", ["int", "buffer", "int"]),
    ("cbor/encoding.c", "cbor_encode_uint64", ["int", "buffer", "int"]),
    ("cbor/encoding.c", "cbor_encode_uint", ["int", "buffer", "int"]),
    ("cbor/encoding.c", "cbor_encode_negint8", ["int", "buffer", "int"]),
    ("cbor/encoding.c", "cbor_encode_negint16", ["int", "buffer", "int"]),
    ("cbor/encoding.c", "cbor_encode_negint32", ["int", "buffer", "int"]),
    ("cbor/encoding.c", "cbor_encode_negint64", ["int", "buffer", "int"]),
    ("cbor/encoding.c", "cbor_encode_negint", ["int", "buffer", "int"]),
    ("cbor/encoding.c", "cbor_encode_bytestring_start", ["int", "buffer", "int"]),
    ("cbor/encoding.c", "cbor_encode_string_start", ["int", "buffer", "int"]),
    ("cbor/encoding.c", "cbor_encode_array_start", ["int", "buffer", "int"]),
    ("cbor/encoding.c", "cbor_encode_map_start", ["int", "buffer", "int"]),
    ("cbor/encoding.c", "cbor_encode_tag", ["int", "buffer", "int"]),
    ("cbor/encoding.c", "cbor_encode_bool", ["int", "buffer", "int"]),
    ("cbor/encoding.c", "cbor_encode_ctrl", ["int", "buffer", "int"]),
    ("cbor/encoding.c", "cbor_encode_indef_bytestring_start", ["buffer", "int"]),
    ("cbor/encoding.c", "cbor_encode_indef_string_start", ["buffer", "int"]),
    ("cbor/encoding.c", "cbor_encode_indef_array_start", ["buffer", "int"]),
    ("cbor/encoding.c", "cbor_encode_indef_map_start", ["buffer", "int"]),
    ("cbor/encoding.c", "cbor_encode_null", ["buffer", "int"]),
    ("cbor/encoding.c", "cbor_encode_undef", ["buffer", "int"]),
    ("cbor/encoding.c", "cbor_encode_break", ["buffer", "int"]),
    ("cbor/internal/loaders.c", "_cbor_load_uint16", ["source"]),
    ("cbor/internal/loaders.c", "_cbor_load_uint32", ["source"]),
    ("cbor/internal/loaders.c", "_cbor_load_uint64", ["source"]),
    ("cbor/streaming.c", "claim_bytes", ["int", "int", "result"]),
    # second wave (bridges in Bridge_leaf_alloc.v / Bridge_leaf_float.v)
    ("cbor/internal/memory_utils.c", "_cbor_alloc_multiple", ["int", "int"], {"ret": "ptr"}),
    ("cbor/internal/memory_utils.c", "_cbor_realloc_multiple", ["ptr", "int", "int"], {"ret": "ptr"}),
    ("cbor/encoding.c", "cbor_encode_single", ["f32", "buffer", "int"]),
    ("cbor/encoding.c", "cbor_encode_double", ["f64", "buffer", "int"]),
    ("cbor/encoding.c", "cbor_encode_half", ["f32", "buffer", "int"], {"ub": True, "must_call": "_cbor_encode_uint16"}),
    ("cbor/internal/loaders.c", "_cbor_decode_half", ["source"], {"ret": "float"}),
    ("cbor/internal/stack.c", "_cbor_stack_push", ["fields:_cbor_stack", "skip", "skip"], {"ret": "ptr", "granted": True}),
    ("cbor/internal/unicode.c", "_cbor_unicode_decode", ["inout", "inout", "int"], {"ub": True}),
    ("cbor/internal/unicode.c", "_cbor_unicode_codepoint_count", ["bytes:source_length", "int", "status:_cbor_unicode_status"],
     {"ub": True, "indet": True, "fuel": "(S (Z.to_nat v_source_length))"}),
]

def translate_all(cfg):
    incs, defs = cfg["incs"], cfg["defs"]
    known, out, notes = {}, [], []
    for ent in FUNCTIONS:
        rel, name, kinds = ent[:3]
        opts = ent[3] if len(ent) > 3 else {}
        src = os.path.join(cast.REPO, "src", rel)
        try:
            txt = translate_function(src, incs, defs, name, known, kinds, opts)
            out.append((name, txt))
            if all(k in ("int", "buffer") for k in kinds) and not opts:
                known[name] = kinds
            if all(k in ("int", "inout") for k in kinds) and opts.get("ub") and len(opts) == 1:
                known.setdefault("__ub__", {})[name] = kinds
        except Unsupported as u:
            notes.append("%s: %s" % (name, u))
            out.append((name, None))
        except RuntimeError as e:
            notes.append("%s: clang: %s" % (name, str(e)[:120]))
            out.append((name, None))
    return out, notes

def emit(fns, spans=None):
    """Gen_leaf.v; spans (if a list) receives (function name, first line, last line) of every translated function"""
    lines = ["(* GENERATED by translator/leaf.py from the clang AST of /repo/src — do not edit *)",
             "From Coq Require Import ZArith List Bool String.", "Import ListNotations.", "From CB Require Import PHalfShape GenLeafTypes.", "From CBGen Require Import Gen_utf8d Gen_config.",
             "Local Open Scope Z_scope.", "Local Open Scope bool_scope.", ""]
    for name, txt in fns:
        if txt is None:
            lines.append("(* %s: outside the supported subset — tied by correspondence only *)" % name)
            lines.append("Definition g%s := fb%s." % (name, name))
            lines.append("Definition g%s_supported : bool := false." % name)
            lines.append("Definition g%s_loopvars : list (list string) := []." % name)
        else:
            first = sum(x.count("\n") + 1 for x in lines) + 1
            lines.append(txt)
            if spans is not None:
                spans.append((name, first, first + txt.count("\n")))
            lines.append("Definition g%s_supported : bool := true." % name)
            lines.append("Definition g%s_loopvars : list (list string) := [%s]." % (name, "; ".join(
                "[" + "; ".join('"%s"%%string' % v for v in lv) + "]" for lv in LOOPVARS.get(name, []))))
        lines.append("")
    return "\n".join(lines)

def emit_checked(fns):
    """emit, then compile the text once; a function whose generated text does not type-check (a translator
    bug) is re-emitted as its fallback, so the worst case is a degraded function, never a Gen_leaf.v that
    blocks every property.  -> (text, notes)"""
    from . import selfcheck
    fns = list(fns)
    notes = []
    for _ in range(len(fns) + 2):
        spans = []
        text = emit(fns, spans)
        if selfcheck.already_compiled("Gen_leaf", text):
            return text, notes
        ok, line, msg = selfcheck.coqc_text("Gen_leaf", text)
        if ok:
            return text, notes
        if not notes:
            # is anything compilable at all?  (fresh setup: the support files are not built yet)
            if not selfcheck.coqc_text("Gen_leaf", emit([(n, None) for n, _ in fns]))[0]:
                return text, []
        hit = None
        if line is not None:
            for name, a, b in spans:
                if a <= line <= b + 1:
                    hit = name
        if hit is None:
            # cannot attribute the error: degrade every remaining translated function
            for name, a, b in spans:
                notes.append("%s: %s" % (name, selfcheck.NOTE))
            return emit([(n, None) for n, _ in fns]), notes
        notes.append("%s: %s" % (hit, selfcheck.NOTE))
        fns = [(n, (None if n == hit else t)) for n, t in fns]
    return emit([(n, None) for n, _ in fns]), notes
