"""Translate small C leaf functions (integer subset) into Gallina over Z, statement by statement.

Every integral conversion to an unsigned type inserts an explicit wrap; arithmetic on an unsigned
type wraps; `int` arithmetic is left unbounded (the promoted operands here are 8/16-bit values, far
from INT_MAX); C truth values stay integers (b2z); statements are rendered in continuation-passing
style; the one `while` becomes recursion on fuel 65.  Output buffers are modelled as the list of
stores `(index, value)` in program order; the fields of `struct cbor_decoder_result* result` as
three variables.  A construct outside the subset raises Unsupported: the function is then tied to
the model by the correspondence runs only."""
import os
from . import cast

class Unsupported(Exception):
    pass

UNSIGNED = {"size_t": 64, "uint64_t": 64, "unsigned long": 64, "uint32_t": 32, "unsigned int": 32, "uint16_t": 16,
            "unsigned short": 16, "uint8_t": 8, "unsigned char": 8, "_Bool": 1, "bool": 1}
SIGNED = {"int": 32, "long": 64, "int8_t": 8}
STATUS = {"CBOR_DECODER_FINISHED": 0, "CBOR_DECODER_NEDATA": 1, "CBOR_DECODER_ERROR": 2}

def ctype(n):
    t = n.get("type", {})
    return (t.get("desugaredQualType") or t.get("qualType") or "").replace("const ", "").strip()

def width(t):
    t = t.replace("const ", "").strip()
    if t in UNSIGNED:
        return UNSIGNED[t], False
    if t in SIGNED:
        return SIGNED[t], True
    if t.startswith("enum "):
        return 32, False
    raise Unsupported("type " + t)

class Ctx:
    def __init__(self, known_fns):
        self.known = known_fns
        self.buffers = set()      # names of output-buffer parameters
        self.sources = set()      # names of input pointer parameters
        self.result = None        # name of the struct cbor_decoder_result* parameter
        self.bound = set()        # parameters and locals
        self.loops = []; self.fname = ''
        self.tailcall_pair = False
        self.stored = False
        self.src = None; self.incs = None; self.defs = None
    def global_const(self, name):
        docs = cast.ast_dump(self.src, self.incs, name, self.defs)
        for d in docs:
            if d.get("kind") == "VarDecl" and d.get("name") == name and "const" in d.get("type", {}).get("qualType", ""):
                init = [x for x in d.get("inner", []) if x.get("kind") != "FullComment"]
                if init:
                    v = cast.expr(init[-1])
                    if v[0] == "int":
                        return v[1]
        raise Unsupported("global " + name)

def wrapz(w, e):
    return "(wrapz %d %s)" % (w, e)

def E(n, cx):
    k = n.get("kind")
    if k in ("ParenExpr", "ConstantExpr"):
        return E(n["inner"][-1], cx)
    if k == "IntegerLiteral":
        return "%s" % int(n["value"])
    if k == "CXXBoolLiteralExpr":
        return "1" if n.get("value") else "0"
    if k == "ImplicitCastExpr" or k == "CStyleCastExpr":
        ck = n.get("castKind")
        inner = n["inner"][-1]
        if ck in ("LValueToRValue", "NoOp", "FunctionToPointerDecay"):
            return E(inner, cx)
        if ck == "IntegralCast":
            w, signed = width(ctype(n))
            e = E(inner, cx)
            if signed:
                return e
            if inner.get("kind") == "IntegerLiteral" and 0 <= int(inner["value"]) < (1 << w):
                return e
            return wrapz(w, e)
        if ck == "IntegralToBoolean":
            return "(b2z (nz %s))" % E(inner, cx)
        raise Unsupported("cast " + str(ck))
    if k == "DeclRefExpr":
        d = n["referencedDecl"]
        if d.get("kind") == "EnumConstantDecl":
            if d["name"] in STATUS:
                return str(STATUS[d["name"]])
            raise Unsupported("enum constant " + d["name"])
        if d.get("kind") == "VarDecl" and d["name"] not in cx.bound:
            return str(cx.global_const(d["name"]))
        return "v_" + d["name"]
    if k == "UnaryExprOrTypeTraitExpr":
        if n.get("name") == "sizeof":
            w, _ = width(n.get("argType", {}).get("qualType", "?"))
            return str(w // 8)
        raise Unsupported("type trait")
    if k == "BinaryOperator":
        op = n["opcode"]
        a, b = n["inner"]
        ea, eb = E(a, cx), E(b, cx)
        if op in ("<", "<=", ">", ">=", "==", "!="):
            cmp_ = {"<": "<?", "<=": "<=?", ">": ">?", ">=": ">=?", "==": "=?"}.get(op)
            if op == "!=":
                return "(b2z (negb (%s =? %s)))" % (ea, eb)
            return "(b2z (%s %s %s))" % (ea, cmp_, eb)
        if op == "&&":
            return "(b2z (nz %s && nz %s))" % (ea, eb)
        if op == "||":
            return "(b2z (nz %s || nz %s))" % (ea, eb)
        w, signed = width(ctype(n))
        if op in ("+", "-", "*"):
            r = "(%s %s %s)" % (ea, op, eb)
            return r if signed else wrapz(w, r)
        if op == ">>":
            return "(Z.shiftr %s %s)" % (ea, eb)
        if op == "<<":
            r = "(Z.shiftl %s %s)" % (ea, eb)
            return r if signed else wrapz(w, r)
        if op == "&":
            return "(Z.land %s %s)" % (ea, eb)
        if op == "|":
            return "(Z.lor %s %s)" % (ea, eb)
        raise Unsupported("operator " + op)
    if k == "UnaryOperator":
        op = n["opcode"]
        if op == "!":
            return "(b2z (negb (nz %s)))" % E(n["inner"][0], cx)
        if op == "*":
            # *(source + k)
            p = cast.strip(n["inner"][0])
            off = ptr_off(p, cx)
            if off is not None:
                return "(v_%s %d)" % off
        raise Unsupported("unary " + op)
    if k == "ArraySubscriptExpr":
        raise Unsupported("array read")
    if k == "MemberExpr":
        base = cast.strip(n["inner"][0])
        if n.get("isArrow") and base.get("kind") == "DeclRefExpr" and base["referencedDecl"]["name"] == cx.result:
            return "r_" + n["name"]
        raise Unsupported("member access")
    if k == "ConditionalOperator":
        c, a, b = n["inner"]
        return "(if nz %s then %s else %s)" % (E(c, cx), E(a, cx), E(b, cx))
    if k == "CallExpr":
        f = cast.strip(n["inner"][0])
        if f.get("kind") == "DeclRefExpr" and f["referencedDecl"]["name"] in cx.known:
            name = f["referencedDecl"]["name"]
            args = n["inner"][1:]
            sig = cx.known[name]
            parts = []
            for a, kind in zip(args, sig):
                if kind == "int":
                    parts.append(E(a, cx))
                elif kind == "skip":
                    continue
                elif kind == "buffer":
                    aa = cast.strip(a)
                    if not (aa.get("kind") == "DeclRefExpr" and aa["referencedDecl"]["name"] in cx.buffers):
                        raise Unsupported("buffer argument is not the caller's buffer")
                    cx.tailcall_pair = True
                else:
                    raise Unsupported("call argument kind")
            return "(g%s %s)" % (name, " ".join(parts))
        raise Unsupported("call")
    raise Unsupported("expression " + str(k))

def ptr_off(p, cx):
    """source + k -> (name, k)"""
    p = cast.strip(p)
    if p.get("kind") == "DeclRefExpr" and p["referencedDecl"]["name"] in cx.sources:
        return (p["referencedDecl"]["name"], 0)
    if p.get("kind") == "BinaryOperator" and p.get("opcode") == "+":
        a, b = p["inner"]
        pa = ptr_off(a, cx)
        b = cast.strip(b)
        if pa and b.get("kind") == "IntegerLiteral":
            return (pa[0], pa[1] + int(b["value"]))
    return None

def S(stmts, cx, ret):
    """CPS translation of a statement list; `ret(e)` renders a return of expression text e"""
    if not stmts:
        raise Unsupported("control reaches the end of a non-void function")
    s, rest = stmts[0], stmts[1:]
    k = s.get("kind")
    if k in ("ParagraphComment", "FullComment", "NullStmt"):
        return S(rest, cx, ret)
    if k == "CompoundStmt":
        return S([x for x in s.get("inner", [])] + rest, cx, ret)
    if k == "ReturnStmt":
        cx.tailcall_pair = False
        e = E(s["inner"][0], cx)
        if cx.tailcall_pair:
            if cx.stored:
                raise Unsupported("tail call into an encoder after own stores")
            cx.tailcall_pair = False
            return e
        return ret(e)
    if k == "DeclStmt":
        out = ""
        for d in s.get("inner", []):
            if d.get("kind") != "VarDecl":
                raise Unsupported("declaration")
            init = [x for x in d.get("inner", []) if x.get("kind") not in ("FullComment",)]
            if not init:
                raise Unsupported("uninitialised local")
            out += "let v_%s := %s in\n  " % (d["name"], E(init[-1], cx))
            cx.bound.add(d["name"])
        return out + S(rest, cx, ret)
    if k == "IfStmt":
        inner = [x for x in s["inner"]]
        c = E(inner[0], cx)
        then = inner[1]
        els = inner[2] if len(inner) > 2 else None
        t = S([then] + rest, cx, ret)
        e = S(([els] if els else []) + rest, cx, ret)
        return "(if nz %s then\n  %s\n  else\n  %s)" % (c, t, e)
    if k == "BinaryOperator" and s.get("opcode") == "=":
        lhs, rhs = s["inner"]
        l = cast.strip(lhs)
        if l.get("kind") == "ArraySubscriptExpr":
            base, idx = l["inner"]
            b = cast.strip(base)
            if b.get("kind") == "DeclRefExpr" and b["referencedDecl"]["name"] in cx.buffers:
                w, _ = width(ctype(l))
                cx.stored = True
                return "let stores := stores ++ [(%s, %s)] in\n  %s" % (E(idx, cx), E(rhs, cx), S(rest, cx, ret))
        if l.get("kind") == "MemberExpr" and l.get("isArrow"):
            b = cast.strip(l["inner"][0])
            if b.get("kind") == "DeclRefExpr" and b["referencedDecl"]["name"] == cx.result:
                return "let r_%s := %s in\n  %s" % (l["name"], E(rhs, cx), S(rest, cx, ret))
        if l.get("kind") == "DeclRefExpr":
            return "let v_%s := %s in\n  %s" % (l["referencedDecl"]["name"], E(rhs, cx), S(rest, cx, ret))
        raise Unsupported("assignment target")
    if k == "CompoundAssignOperator":
        lhs, rhs = s["inner"]
        l = cast.strip(lhs)
        if l.get("kind") == "MemberExpr" and l.get("isArrow") and s.get("opcode") == "+=":
            b = cast.strip(l["inner"][0])
            if b.get("kind") == "DeclRefExpr" and b["referencedDecl"]["name"] == cx.result:
                w, _ = width(ctype(l))
                return "let r_%s := %s in\n  %s" % (l["name"], wrapz(w, "(r_%s + %s)" % (l["name"], E(rhs, cx))), S(rest, cx, ret))
        raise Unsupported("compound assignment")
    if k == "WhileStmt":
        cond, body = s["inner"]
        # loop state: the locals the body updates (x++ / x >>= k / x = e)
        updates = []
        for b in body.get("inner", []):
            bk = b.get("kind")
            if bk == "UnaryOperator" and b.get("opcode") == "++":
                v = cast.strip(b["inner"][0]); w, _ = width(ctype(v))
                updates.append((v["referencedDecl"]["name"], wrapz(w, "(v_%s + 1)" % v["referencedDecl"]["name"])))
            elif bk == "CompoundAssignOperator" and b.get("opcode") == ">>=":
                v = cast.strip(b["inner"][0])
                updates.append((v["referencedDecl"]["name"], "(Z.shiftr v_%s %s)" % (v["referencedDecl"]["name"], E(b["inner"][1], cx))))
            else:
                raise Unsupported("loop body statement")
        names = [u[0] for u in updates]
        if len(set(names)) != len(names):
            raise Unsupported("loop updates a variable twice")
        params = " ".join("v_" + n for n in names)
        tup = "(" + ", ".join("v_" + n for n in names) + ")" if len(names) > 1 else "v_" + names[0]
        # sequential semantics of the body: later updates see earlier ones
        body_txt = ""
        for n_, e_ in updates:
            body_txt += "let v_%s := %s in " % (n_, e_)
        cond_txt = E(cond, cx)
        import re as _re
        used = set(_re.findall(r"v_([A-Za-z_][A-Za-z_0-9]*)", cond_txt + body_txt))
        extra = sorted(x for x in used if x in cx.bound and x not in names)
        lname = "g%s_loop%d" % (cx.fname, len(cx.loops))
        cx.loops.append(
            "Fixpoint %s (fuel : nat) %s %s {struct fuel} :=\n  match fuel with O => %s | S fuel' =>\n    if nz %s then %s%s fuel' %s %s else %s end."
            % (lname, " ".join("(v_%s : Z)" % x for x in extra), " ".join("(v_%s : Z)" % n for n in names), tup, cond_txt, body_txt, lname,
               " ".join("v_" + x for x in extra), params, tup))
        loop = "(let '%s := %s 65%%nat %s %s in\n  %s)" % (tup, lname, " ".join("v_" + x for x in extra), params, S(rest, cx, ret))
        return loop
    raise Unsupported("statement " + str(k))

def translate_function(src, incs, defs, name, known, kinds):
    """kinds: per parameter 'int' | 'buffer' | 'source' | 'result'.  Returns Gallina definition text."""
    docs = cast.ast_dump(src, incs, name, defs)
    fn, body = cast.function_body(docs, name)
    if fn is None:
        raise Unsupported("function not found")
    params = [p for p in fn.get("inner", []) if p.get("kind") == "ParmVarDecl"]
    if len(params) != len(kinds):
        raise Unsupported("parameter list changed")
    cx = Ctx(known)
    cx.src, cx.incs, cx.defs = src, incs, defs
    cx.fname = name
    args = []
    for p, kd in zip(params, kinds):
        cx.bound.add(p["name"])
        if kd == "int":
            args.append("(v_%s : Z)" % p["name"])
        elif kd == "buffer":
            cx.buffers.add(p["name"])
        elif kd == "source":
            cx.sources.add(p["name"]); args.append("(v_%s : Z -> Z)" % p["name"])
        elif kd == "result":
            cx.result = p["name"]; args += ["(r_read : Z)", "(r_status : Z)", "(r_required : Z)"]
    has_buf = bool(cx.buffers)
    if cx.result:
        ret = lambda e: "(%s, r_read, r_status, r_required)" % e
    elif has_buf:
        ret = lambda e: "(%s, stores)" % e
    else:
        ret = lambda e: e
    txt = S([body], cx, ret)
    pre = "let stores := @nil (Z * Z) in\n  " if has_buf else ""
    return "\n".join(cx.loops + ["Definition g%s %s :=\n  %s%s." % (name, " ".join(args), pre, txt)])

# (file, function, parameter kinds) in dependency order
FUNCTIONS = [
    ("cbor/internal/memory_utils.c", "_cbor_highest_bit", ["int"]),
    ("cbor/internal/memory_utils.c", "_cbor_safe_to_multiply", ["int", "int"]),
    ("cbor/internal/memory_utils.c", "_cbor_safe_to_add", ["int", "int"]),
    ("cbor/internal/memory_utils.c", "_cbor_safe_signaling_add", ["int", "int"]),
    ("cbor/serialization.c", "_cbor_encoded_header_size", ["int"]),
    ("cbor/internal/encoders.c", "_cbor_encode_uint8", ["int", "buffer", "int", "int"]),
    ("cbor/internal/encoders.c", "_cbor_encode_uint16", ["int", "buffer", "int", "int"]),
    ("cbor/internal/encoders.c", "_cbor_encode_uint32", ["int", "buffer", "int", "int"]),
    ("cbor/internal/encoders.c", "_cbor_encode_uint64", ["int", "buffer", "int", "int"]),
    ("cbor/encoding.c", "_cbor_encode_byte", ["int", "buffer", "int"]),
    ("cbor/internal/encoders.c", "_cbor_encode_uint", ["int", "buffer", "int", "int"]),
    ("cbor/encoding.c", "cbor_encode_uint8", ["int", "buffer", "int"]),
    ("cbor/encoding.c", "cbor_encode_uint16", ["int", "buffer", "int"]),
    ("cbor/encoding.c", "cbor_encode_uint32", ["int", "buffer", "int"]),
    ("cbor/encoding.c", "cbor_encode_uint64", ["int", "buffer", "int"]),
    ("cbor/encoding.c", "cbor_encode_uint", ["int", "buffer", "int"]),
    ("cbor/encoding.c", "cbor_encode_negint8", ["int", "buffer", "int"]),
    ("cbor/encoding.c", "cbor_encode_negint16", ["int", "buffer", "int"]),
    ("cbor/encoding.c", "cbor_encode_negint32", ["int", "buffer", "int"]),
    ("cbor/encoding.c", "cbor_encode_negint64", ["int", "buffer", "int"]),
    ("cbor/encoding.c", "cbor_encode_negint", ["int", "buffer", "int"]),
    ("cbor/encoding.c", "cbor_encode_bytestring_start", ["int", "buffer", "int"]),
    ("cbor/encoding.c", "cbor_encode_string_start", ["int", "buffer", "int"]),
    ("cbor/encoding.c", "cbor_encode_array_start", ["int", "buffer", "int"]),
    ("cbor/encoding.c", "cbor_encode_map_start", ["int", "buffer", "int"]),
    ("cbor/encoding.c", "cbor_encode_tag", ["int", "buffer", "int"]),
    ("cbor/encoding.c", "cbor_encode_bool", ["int", "buffer", "int"]),
    ("cbor/encoding.c", "cbor_encode_ctrl", ["int", "buffer", "int"]),
    ("cbor/encoding.c", "cbor_encode_indef_bytestring_start", ["buffer", "int"]),
    ("cbor/encoding.c", "cbor_encode_indef_string_start", ["buffer", "int"]),
    ("cbor/encoding.c", "cbor_encode_indef_array_start", ["buffer", "int"]),
    ("cbor/encoding.c", "cbor_encode_indef_map_start", ["buffer", "int"]),
    ("cbor/encoding.c", "cbor_encode_null", ["buffer", "int"]),
    ("cbor/encoding.c", "cbor_encode_undef", ["buffer", "int"]),
    ("cbor/encoding.c", "cbor_encode_break", ["buffer", "int"]),
    ("cbor/internal/loaders.c", "_cbor_load_uint16", ["source"]),
    ("cbor/internal/loaders.c", "_cbor_load_uint32", ["source"]),
    ("cbor/internal/loaders.c", "_cbor_load_uint64", ["source"]),
    ("cbor/streaming.c", "claim_bytes", ["int", "int", "result"]),
]

def translate_all(cfg):
    incs, defs = cfg["incs"], cfg["defs"]
    known, out, notes = {}, [], []
    for rel, name, kinds in FUNCTIONS:
        src = os.path.join(cast.REPO, "src", rel)
        try:
            txt = translate_function(src, incs, defs, name, known, kinds)
            out.append((name, txt))
            if all(k in ("int", "buffer") for k in kinds):
                known[name] = kinds
        except Unsupported as u:
            notes.append("%s: %s" % (name, u))
            out.append((name, None))
        except RuntimeError as e:
            notes.append("%s: clang: %s" % (name, str(e)[:120]))
            out.append((name, None))
    return out, notes

def emit(fns):
    lines = ["(* GENERATED by translator/leaf.py from the clang AST of /repo/src — do not edit *)",
             "From Coq Require Import ZArith List Bool.", "Import ListNotations.", "From CB Require Import GenLeafTypes.",
             "Local Open Scope Z_scope.", "Local Open Scope bool_scope.", ""]
    for name, txt in fns:
        if txt is None:
            lines.append("(* %s: outside the supported subset — tied by correspondence only *)" % name)
            lines.append("Definition g%s := fb%s." % (name, name))
            lines.append("Definition g%s_supported : bool := false." % name)
        else:
            lines.append(txt)
            lines.append("Definition g%s_supported : bool := true." % name)
        lines.append("")
    return "\n".join(lines)
