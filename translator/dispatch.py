"""Translate the 256-way switch of cbor_stream_decode (src/cbor/streaming.c) into a Gallina table.

Each case body is interpreted symbolically into a small normal form (claims, the one callback
invoked, its argument expressions); rows whose body leaves the recognised shapes are listed as
unsupported (they are then tied to the model by the correspondence runs only)."""
import os, sys
from . import cast

LOADERS = {"_cbor_load_uint8": 1, "_cbor_load_uint16": 2, "_cbor_load_uint32": 4, "_cbor_load_uint64": 8}
FLOADERS = {"_cbor_load_half": 2, "_cbor_load_float": 4, "_cbor_load_double": 8}

class Unsupported(Exception):
    pass

# ---- AUDIT2: what cast.expr normalises away but must not be ignored -----------------------------------------------
_BITS = {"size_t": 64, "uint64_t": 64, "unsigned long": 64, "long": 64, "unsigned long long": 64, "long long": 64, "uint32_t": 32,
         "unsigned int": 32, "int": 32, "uint16_t": 16, "unsigned short": 16, "short": 16, "uint8_t": 8, "unsigned char": 8,
         "char": 8, "signed char": 8, "int8_t": 8, "int16_t": 16, "int32_t": 32, "int64_t": 64, "bool": 1, "_Bool": 1}
def _bits(n):
    t = n.get("type", {})
    q = (t.get("desugaredQualType") or t.get("qualType") or "").replace("const ", "").strip()
    return _BITS.get(q)

def narrowing_inside(n, top=True):
    """does the expression contain an integral conversion to a NARROWER type (explicit or implicit) below its outermost
    conversion?  cast.expr drops every cast, so `(uint32_t)_cbor_load_uint64(source + 1)` looked like the plain load.  The
    outermost conversion is the one to the callback's parameter type, which the model applies itself."""
    if not isinstance(n, dict):
        return False
    k = n.get("kind")
    if k in ("ImplicitCastExpr", "CStyleCastExpr") and n.get("castKind") == "IntegralCast" and n.get("inner"):
        to, frm = _bits(n), _bits(n["inner"][-1])
        lit = cast.strip(n["inner"][-1]).get("kind") == "IntegerLiteral"
        if not top and not lit and (to is None or frm is None or to < frm):
            return True
        return narrowing_inside(n["inner"][-1], False)
    if k in ("ImplicitCastExpr", "CStyleCastExpr") and n.get("castKind") not in (None, "LValueToRValue", "NoOp", "FunctionToPointerDecay", "ArrayToPointerDecay", "BitCast", "IntegralCast"):
        if n.get("castKind") == "IntegralToBoolean" and n.get("inner") and cast.strip(n["inner"][-1]).get("kind") == "IntegerLiteral":
            return False     # `false` / `true`
        return True          # float <-> int, int -> bool, ... inside an argument
    return any(narrowing_inside(c, top if k in ("ParenExpr", "ConstantExpr") else False) for c in n.get("inner", []))

def status_only(il, status):
    """an initialiser of struct cbor_decoder_result that sets .status = <status> and leaves every other member zero"""
    if il.get("kind") != "InitListExpr":
        return False
    named = 0
    for x in il.get("inner", []):
        if x.get("kind") == "ImplicitValueInitExpr":
            continue
        if cast.mentions(x, status) and cast.strip(x).get("kind") == "DeclRefExpr":
            named += 1
            continue
        if cast.expr(x) == ("int", 0):
            continue
        return False
    return named == 1

# the loaders the rows name are trusted BY NAME by the table below; the integer ones of 2 / 4 / 8 bytes are translated and
# bridged by leaf.py, the others are compared here with the one shape the model assumes
def loader_shapes_ok(incs, defs):
    """names of the loaders whose body is not the recognised one (rows that use them become unsupported)"""
    src = os.path.join(cast.REPO, "src/cbor/internal/loaders.c")
    bad = []
    def body_of(name):
        docs = cast.ast_dump(src, incs, name, defs)
        fn, body = cast.function_body(docs, name)
        if body is None:
            return None, None
        params = [p.get("name") for p in fn.get("inner", []) if p.get("kind") == "ParmVarDecl"]
        return params, [x for x in body.get("inner", []) if x.get("kind") not in ("NullStmt",)]
    def ret_expr(st):
        return st["inner"][0] if st.get("kind") == "ReturnStmt" and st.get("inner") else None
    try:
        params, b = body_of("_cbor_load_uint8")
        r = ret_expr(b[0]) if b and len(b) == 1 else None
        if not (params == ["source"] and r is not None and cast.expr(r) == ("un", "*", ("var", "source")) and _bits(r) == 8
                and not narrowing_inside(r["inner"][-1] if r.get("kind") == "CStyleCastExpr" else r)):
            bad.append("_cbor_load_uint8")
    except (RuntimeError, KeyError, IndexError, TypeError):
        bad.append("_cbor_load_uint8")
    try:
        params, b = body_of("_cbor_load_half")
        r = ret_expr(b[0]) if b and len(b) == 1 else None
        if not (params == ["source"] and r is not None and cast.expr(r) == ("call", ("var", "_cbor_decode_half"), [("var", "source")])):
            bad.append("_cbor_load_half")
    except (RuntimeError, KeyError, IndexError, TypeError):
        bad.append("_cbor_load_half")
    for name, inner, arm_in, arm_out in (("_cbor_load_float", "_cbor_load_uint32", "as_uint", "as_float"),
                                         ("_cbor_load_double", "_cbor_load_uint64", "as_uint", "as_double")):
        try:
            params, b = body_of(name)
            ok = params == ["source"] and b is not None and len(b) == 2 and b[0].get("kind") == "DeclStmt" and len(b[0]["inner"]) == 1
            if ok:
                d = b[0]["inner"][0]
                init = [x for x in d.get("inner", []) if x.get("kind") == "InitListExpr"]
                ok = (len(init) == 1 and init[0].get("field", {}).get("name") == arm_in and len(init[0].get("inner", [])) == 1
                      and cast.expr(init[0]["inner"][0]) == ("call", ("var", inner), [("var", "source")])
                      and not narrowing_inside(init[0]["inner"][0]))
                r = ret_expr(b[1])
                ok = ok and r is not None and cast.expr(r) == ("member", arm_out, ("var", d.get("name")))
            if not ok:
                bad.append(name)
        except (RuntimeError, KeyError, IndexError, TypeError):
            bad.append(name)
    return bad

def flatten(stmt):
    """statement -> flat list of simple statements (compound / do-while(0) unwrapped)"""
    k = stmt.get("kind")
    if k == "CompoundStmt":
        out = []
        for s in stmt.get("inner", []):
            out += flatten(s)
        return out
    if k == "DoStmt":
        body, cond = stmt["inner"]
        c = cast.expr(cond)
        if c != ("int", 0):
            raise Unsupported("do-while with non-zero condition")
        return flatten(body)
    if k == "NullStmt":
        return []
    return [stmt]

def src_off(e):
    """source + a + b ... -> total literal offset, or None"""
    if e == ("var", "source"):
        return 0
    if e[0] == "bin" and e[1] == "+":
        a, b = e[2], e[3]
        oa = src_off(a)
        if oa is not None and b[0] == "int":
            return oa + b[1]
        ob = src_off(b)
        if ob is not None and a[0] == "int":
            return ob + a[1]
        # (source + 1) + extra with extra a literal handled above; symbolic extras rejected
    return None

def loader(e):
    """loadK(source + off) [- sub]  ->  (width, off, sub, is_float)"""
    sub = 0
    if e[0] == "bin" and e[1] == "-" and e[3][0] == "int":
        sub = e[3][1]
        e = e[2]
    if e[0] == "call" and e[1][0] == "var":
        fn = e[1][1]
        if len(e[2]) != 1:
            return None
        off = src_off(e[2][0])
        if off is None:
            return None
        if fn in LOADERS:
            return (LOADERS[fn], off, sub, False)
        if fn in FLOADERS and sub == 0:
            return (FLOADERS[fn], off, 0, True)
    return None

def is_claim(e):
    """claim_bytes(K, source_size, &result) -> K expr"""
    if e[0] == "call" and e[1] == ("var", "claim_bytes") and len(e[2]) == 3:
        if e[2][1] == ("var", "source_size") and e[2][2] == ("un", "&", ("var", "result")):
            return e[2][0]
    return None

def interp(stmts, env, ops):
    """symbolic execution of a straight-line case body with nested ifs on claim_bytes"""
    for i, s in enumerate(stmts):
        k = s.get("kind")
        if k == "ReturnStmt":
            e = cast.expr(s["inner"][0])
            if e == ("var", "result"):
                ops.append(("ret",))
            elif e[0] == "complit" and cast.mentions(s, "CBOR_DECODER_ERROR") and not cast.mentions(s, "result"):
                cl = cast.strip(s["inner"][0])
                if not (cl.get("kind") == "CompoundLiteralExpr" and cl.get("inner") and status_only(cl["inner"][0], "CBOR_DECODER_ERROR")):
                    raise Unsupported("error result with members other than .status set")      # AUDIT2
                ops.append(("reterr",))
            else:
                raise Unsupported("return of an unrecognised value")
            if i != len(stmts) - 1:
                raise Unsupported("code after return")
            return
        if k == "IfStmt":
            inner = s["inner"]
            if len(inner) != 2:
                raise Unsupported("if with else")
            kexpr = is_claim(cast.expr(inner[0]))
            if kexpr is None:
                raise Unsupported("if on something other than claim_bytes")
            if narrowing_inside(inner[0], False):
                raise Unsupported("narrowing conversion in the arguments of claim_bytes")      # AUDIT2
            sub_ops = []
            interp(flatten(inner[1]), dict(env), sub_ops)
            ops.append(("claim", subst(kexpr, env), sub_ops))
            continue
        if k == "DeclStmt":
            for d in s.get("inner", []):
                if d.get("kind") != "VarDecl" or not d.get("inner"):
                    raise Unsupported("declaration")
                if narrowing_inside(d["inner"][-1]) or (_bits(d) or 0) < 64:
                    raise Unsupported("narrowing conversion in the initialiser of a local")      # AUDIT2
                env[d["name"]] = subst(cast.expr(d["inner"][-1]), env)
            continue
        if k == "CallExpr":
            e = cast.expr(s)
            if e[0] == "mcall":
                # AUDIT2: the callee must be a member of the `callbacks` PARAMETER (cast.expr keeps only the member name:
                # `cbor_empty_callbacks.uint8(context, ..)` gave the same row), and no argument may hide a narrowing cast
                callee = cast.strip(s["inner"][0])
                base = cast.strip(callee["inner"][0]) if callee.get("inner") else {}
                if not (callee.get("isArrow") and base.get("kind") == "DeclRefExpr" and base.get("referencedDecl", {}).get("kind") == "ParmVarDecl"
                        and base["referencedDecl"].get("name") == "callbacks"):
                    raise Unsupported("callback not taken from the callbacks parameter")
                if any(narrowing_inside(a) for a in s["inner"][1:]):
                    raise Unsupported("narrowing conversion inside a callback argument")
                args = [subst(a, env) for a in e[2]]
                if not args or args[0] != ("var", "context"):
                    raise Unsupported("callback without context")
                ops.append(("cb", e[1], args[1:]))
                continue
            raise Unsupported("call statement")
        raise Unsupported("statement " + str(k))

def subst(e, env):
    if e[0] == "var" and e[1] in env:
        return env[e[1]]
    if e[0] == "bin":
        return ("bin", e[1], subst(e[2], env), subst(e[3], env))
    if e[0] == "call":
        return ("call", e[1], [subst(a, env) for a in e[2]])
    return e

def classify(ops):
    """ops -> Gallina term of type gaction"""
    if ops == [("reterr",)]:
        return "GErr"
    if not ops or ops[-1] != ("ret",):
        raise Unsupported("does not end in return result")
    body = ops[:-1]
    if len(body) != 1:
        raise Unsupported("body shape")
    op = body[0]
    if op[0] == "cb":
        _, cb, args = op
        if not args:
            return "GNoArg cb_%s" % cb
        if len(args) == 1:
            if args[0][0] == "int" and cb == "boolean":
                return "GBool %s" % ("true" if args[0][1] else "false")
            l = loader(args[0])
            if l and not l[3]:
                return "GImm cb_%s %d %d %d" % (cb, l[0], l[1], l[2])
        raise Unsupported("callback arguments")
    if op[0] == "claim":
        _, k, sub = op
        if k[0] == "int":
            kk = k[1]
            if len(sub) == 1 and sub[0][0] == "cb":
                _, cb, args = sub[0]
                if len(args) == 1:
                    l = loader(args[0])
                    if l and l[2] == 0:
                        return "%s cb_%s %d %d %d" % ("GFloat" if l[3] else "GArg", cb, kk, l[0], l[1])
                raise Unsupported("callback arguments")
            if len(sub) == 1 and sub[0][0] == "claim":
                # READ_CLAIM_INVOKE: claim(k); length = loadK(source+1); claim(length); cb(ctx, source+1+k, length)
                _, lenexpr, sub2 = sub[0]
                l = loader(lenexpr)
                if l and not l[3] and l[2] == 0 and len(sub2) == 1 and sub2[0][0] == "cb":
                    _, cb, args = sub2[0]
                    if len(args) == 2 and args[1] == lenexpr:
                        po = src_off(args[0])
                        if po is not None:
                            return "GStrArg cb_%s %d %d %d %d" % (cb, kk, l[0], l[1], po)
                raise Unsupported("string with argument shape")
        else:
            # CLAIM_BYTES_AND_INVOKE(cb, length, 0) with length = load8(source) - sub
            l = loader(k)
            if l and not l[3] and len(sub) == 1 and sub[0][0] == "cb":
                _, cb, args = sub[0]
                if len(args) == 2 and args[1] == k:
                    po = src_off(args[0])
                    if po is not None:
                        return "GStrImm cb_%s %d %d %d %d" % (cb, l[0], l[1], l[2], po)
            raise Unsupported("embedded-length string shape")
    raise Unsupported("shape")

def case_groups(switch_body):
    """yield (labels, statements) for each group of case labels"""
    stmts = switch_body.get("inner", [])
    i = 0
    groups = []
    while i < len(stmts):
        s = stmts[i]
        if s.get("kind") == "CaseStmt":
            labels = []
            cur = s
            while cur.get("kind") == "CaseStmt":
                lab = cast.expr(cur["inner"][0])
                if lab[0] != "int":
                    raise Unsupported("case label")
                if len(cur["inner"]) == 3:      # AUDIT2: GNU range `case lo ... hi:` (only the low bound was read)
                    hi = cast.expr(cur["inner"][1])
                    if hi[0] != "int" or not (lab[1] <= hi[1] < 256):
                        raise Unsupported("case range")
                    labels += list(range(lab[1], hi[1] + 1))
                else:
                    labels.append(lab[1])
                cur = cur["inner"][-1]
            body = [cur]
            i += 1
            while i < len(stmts) and stmts[i].get("kind") not in ("CaseStmt", "DefaultStmt"):
                body.append(stmts[i])
                i += 1
            groups.append((labels, body))
        elif s.get("kind") == "DefaultStmt":
            i += 1
            while i < len(stmts) and stmts[i].get("kind") not in ("CaseStmt", "DefaultStmt"):
                i += 1
        else:
            raise Unsupported("statement between cases")
    return groups

def prologue_ok(body):
    """the statements before the switch: result init, claim_bytes(1) guard"""
    inner = body.get("inner", [])
    if len(inner) != 3:
        return False
    d, i, sw = inner
    if d.get("kind") != "DeclStmt" or i.get("kind") != "IfStmt" or sw.get("kind") != "SwitchStmt":
        return False
    if not cast.mentions(d, "CBOR_DECODER_FINISHED"):
        return False
    # AUDIT2: ... and nothing but .status = FINISHED (read and required start at 0)
    vd = [x for x in d.get("inner", []) if x.get("kind") == "VarDecl"]
    il = [x for x in (vd[0].get("inner", []) if len(vd) == 1 else []) if x.get("kind") == "InitListExpr"]
    if len(vd) != 1 or vd[0].get("name") != "result" or len(il) != 1 or not status_only(il[0], "CBOR_DECODER_FINISHED"):
        return False
    c = cast.expr(i["inner"][0])
    if not (c[0] == "un" and c[1] == "!" and is_claim(c[2]) == ("int", 1)):
        return False
    sel = cast.expr(sw["inner"][0])
    return sel == ("un", "*", ("var", "source"))

def translate(incs, defs=()):
    src = os.path.join(cast.REPO, "src/cbor/streaming.c")
    docs = cast.ast_dump(src, incs, "cbor_stream_decode", defs)
    fn, body = cast.function_body(docs, "cbor_stream_decode")
    rows, unsupported, notes = {}, [], []
    if body is None:
        return None, ["cbor_stream_decode: no body found"]
    if not prologue_ok(body):
        return None, ["cbor_stream_decode: prologue not recognised"]
    sw = [x for x in body["inner"] if x["kind"] == "SwitchStmt"][0]
    try:
        groups = case_groups(sw["inner"][-1])
    except Unsupported as u:
        return None, ["cbor_stream_decode: switch structure: %s" % u]
    try:
        bad_loaders = loader_shapes_ok(incs, defs)      # AUDIT2
    except Exception as e:
        bad_loaders = list(LOADERS) + list(FLOADERS)
    for bl in bad_loaders:
        notes.append("loader %s: body is not the recognised one (rows using it are not translated)" % bl)
    for labels, stmts in groups:
        try:
            if bad_loaders and any(cast.mentions(x, bl) for x in stmts for bl in bad_loaders):
                raise Unsupported("uses the unrecognised loader(s) " + ", ".join(bl for bl in bad_loaders if any(cast.mentions(x, bl) for x in stmts)))
            flat = []
            for s in stmts:
                flat += flatten(s)
            ops = []
            interp(flat, {}, ops)
            term = classify(ops)
            for l in labels:
                rows[l] = term
        except Unsupported as u:
            for l in labels:
                unsupported.append(l)
            notes.append("case 0x%02X..: %s" % (labels[0], u))
    return (rows, sorted(unsupported)), notes

def emit(rows, unsupported):
    out = ["(* GENERATED by translator/dispatch.py from src/cbor/streaming.c — do not edit *)",
           "From CB Require Import PStream GenTypes.", "Local Open Scope N_scope.",
           "Definition gen_rows : list (N * gaction) := ["]
    items = ["  (%d, %s)" % (b, rows[b]) for b in sorted(rows)]
    out.append(";\n".join(items))
    out.append("].")
    out.append("Definition gen_unsupported : list N := [%s]." % "; ".join(str(b) for b in unsupported))
    return "\n".join(out) + "\n"
