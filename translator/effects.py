"""Translate the decision and arithmetic core of libcbor's struct-manipulating container
functions into Gallina "plans" (coq/gen/Gen_effects.v).

A generated plan function takes
  * the integer-valued struct fields the C function reads, as Z parameters `f_<name>` (the table
    below declares them per function: location -> short name),
  * the integer parameters of the C function, as Z parameters `v_<name>`,
  * one boolean oracle `ok_k` per allocator call on a path (`_cbor_malloc`, `_cbor_realloc`,
    `_cbor_alloc_multiple`, `_cbor_realloc_multiple`: did the k-th one return non-NULL?),
  * one integer oracle `c_k` per call of another function of the list (its return value),
and returns a `plan` record (coq/theories/HPlans.v):
  p_ret     the return value (RZ z | RP pointer-token | RVoid),
  p_fields  the final value of every declared integer field, in the declared order,
  p_reqs    the ORDERED list of allocator requests / frees / calls of listed functions,
  p_effs    the other effects, SUMMARISED and in a canonical order that does not depend on the
            program order: reference-count calls per pointer token, slot stores, final values of
            the pointer fields and of the undeclared integer fields the function wrote.

Pointer values are never modelled: a pointer is a symbolic token (PNull, PArg i, PField p "f",
PSlot p idx "m", PNew k = result of the k-th allocator call).  Integer arithmetic is rendered as
in leaf.py (explicit wraps at every unsigned operation / conversion, C truth values as integers).
Statements are rendered in continuation-passing style with SSA names, so every `if` duplicates
the rest of the block; the effect summary of a path is computed here, per return point.

Two groups of functions (FUNCTIONS, `group`): "containers" -> Gen_effects.v (HPlans.v,
Bridge_effects.v) and "load" = the decoder glue of builder_callbacks.c and cbor_load ->
Gen_effects_load.v (HPlansLoad.v, Bridge_effects_load.v).  The glue entries are `precise`: switch /
break, forward goto, struct locals named by their type, struct-returning callees, per-callee write
footprints, `post` fields re-read after an opaque call as fresh inputs g_<name>, cbor_decref as
an ORDERED event, and loops cut at their heads (one plan from the entry, one from each loop head;
arriving at a loop head is the outcome RLoop k).

A construct outside the subset raises Unsupported: the function then falls back to the
hand-written plan of HPlans.v (`G<fn>_supported := false`) and is tied by correspondence only."""
import os, json
import re as _re
from . import cast
from .leaf import Unsupported, UNSIGNED, SIGNED

# ------------------------------------------------------------------------------------------
# translation units: one full clang dump per source file (functions, enums, records)

_TU = {}

def load_tu(src, incs, defs):
    key = (src, tuple(incs), tuple(defs))
    if key in _TU:
        return _TU[key]
    docs = cast.ast_dump(src, incs, None, defs)
    tu = {"functions": {}, "enums": {}, "records": {}, "typedefs": {}, "globals": {}}
    def walk(n):
        if not isinstance(n, dict):
            return
        k = n.get("kind")
        if k == "FunctionDecl":
            for x in n.get("inner", []):
                if x.get("kind") == "CompoundStmt":
                    tu["functions"][n.get("name")] = (n, x)
            return
        if k == "EnumDecl":
            v = -1
            for c in n.get("inner", []):
                if c.get("kind") != "EnumConstantDecl":
                    continue
                v += 1
                for x in c.get("inner", []):
                    if x.get("kind") == "ConstantExpr" and "value" in x:
                        v = int(x["value"])
                    elif x.get("kind") not in ("FullComment",):
                        e = cast.expr(x)
                        if e[0] == "int":
                            v = e[1]
                tu["enums"][c.get("name")] = v
            return
        if k == "RecordDecl" and n.get("completeDefinition"):
            fields = [(f.get("name"), f.get("type", {})) for f in n.get("inner", []) if f.get("kind") == "FieldDecl"]
            if n.get("name"):
                tu["records"][(n.get("tagUsed", "struct") + " " + n["name"])] = fields
            tu["records"]["#" + str(n.get("id"))] = fields
        if k == "VarDecl" and "const" in n.get("type", {}).get("qualType", "") and n.get("storageClass") != "extern":
            init = [x for x in n.get("inner", []) if x.get("kind") not in ("FullComment",)]
            if init:
                e = cast.expr(init[-1])
                if e[0] == "int":
                    tu["globals"][n.get("name")] = e[1]
            return
        if k == "TypedefDecl":
            t = n.get("type", {})
            tu["typedefs"][n.get("name")] = t.get("desugaredQualType") or t.get("qualType")
        for c in n.get("inner", []):
            walk(c)
    for d in docs:
        walk(d)
    _TU[key] = tu
    return tu

# ------------------------------------------------------------------------------------------
# types

def qual(n):
    t = n.get("type", {})
    return (t.get("qualType") or "").strip()

def desugared(n):
    t = n.get("type", {})
    return (t.get("desugaredQualType") or t.get("qualType") or "").strip()

def unconst(t):
    return " ".join(x for x in t.replace("*", " * ").split() if x not in ("const", "volatile", "restrict")).replace(" *", "*").replace("* ", "*")

def is_ptr_type(t):
    return unconst(t).endswith("*") or unconst(t) in PTR_TYPEDEFS

PTR_TYPEDEFS = {"_cbor_malloc_t", "_cbor_realloc_t", "_cbor_free_t"}

def int_width(t, cx):
    """(bits, signed) of an integer type name"""
    t = unconst(t)
    seen = 0
    while t in cx.tu["typedefs"] and t not in UNSIGNED and t not in SIGNED and seen < 8:
        t = unconst(cx.tu["typedefs"][t]); seen += 1
    if t in UNSIGNED:
        return UNSIGNED[t], False
    if t in SIGNED:
        return SIGNED[t], True
    if t.startswith("enum ") or t in ENUM_TYPES:
        return 32, False
    raise Unsupported("type " + t)

ENUM_TYPES = {"cbor_type", "_cbor_dst_metadata", "cbor_int_width", "cbor_float_width", "_cbor_ctrl", "cbor_error_code"}

def node_kind_of_type(n, cx):
    """'ptr' | 'int' | 'obj' for the type of an expression node"""
    t = desugared(n)
    if is_ptr_type(t) or is_ptr_type(qual(n)):
        return "ptr"
    u = unconst(t)
    if u.startswith("struct ") or u.startswith("union "):
        return "obj"
    int_width(qual(n) if unconst(qual(n)) in UNSIGNED or unconst(qual(n)) in SIGNED else t, cx)
    return "int"

# ------------------------------------------------------------------------------------------
# pointer tokens (python side: tuples; Gallina side: constructors of HPlans.ptr)

NULL = ("null",)

def tok_text(t):
    k = t[0]
    if k == "null":
        return "PNull"
    if k == "arg":
        return "(PArg %d)" % t[1]
    if k == "field":
        return "(PField %s \"%s\")" % (tok_text(t[1]), t[2])
    if k == "slot":
        return "(PSlot %s %s \"%s\")" % (tok_text(t[1]), t[2], t[3])
    if k == "new":
        return "(pnew ok_%d %d)" % (t[1], t[1])     # the result of a refused request is NULL
    if k == "local":
        return "(PLocal \"%s\")" % t[1]
    if k == "res":
        return "(PRes %d)" % t[1]
    if k == "post":
        return "(PPost %s \"%s\")" % (tok_text(t[1]), t[2])
    if k == "lsym":
        return "(PLocal \"?%s\")" % t[1]      # classification pass only: never emitted
    if k == "carry":
        return "(PCarry %d)" % t[1]
    raise Unsupported("pointer token " + str(k))

def tok_key(t):
    """canonical order of tokens: null < arg i < field < slot < new k < local < res < post (HPlans.v)"""
    k = t[0]
    if k == "null":
        return (0,)
    if k == "arg":
        return (1, t[1])
    if k == "field":
        return (2, tok_key(t[1]), t[2])
    if k == "slot":
        return (3, tok_key(t[1]), t[3], t[2])
    if k == "new":
        return (4, t[1])
    if k == "local":
        return (5, t[1])
    if k == "res":
        return (6, t[1])
    if k == "post":
        return (7, tok_key(t[1]), t[2])
    if k == "carry":
        return (8, t[1])
    return (9,)

def wrapz(w, e):
    return "(wrapz %d %s)" % (w, e)

# ------------------------------------------------------------------------------------------
# per-path state

class St:
    def __init__(self):
        self.env = {}        # decl id -> value
        self.ints = {}       # (token, path) -> Gallina text (current value of an integer field)
        self.ptrs = {}       # (token, path) -> pointer value written to a pointer field
        self.reqs = []       # ordered: allocator requests / frees / calls (Gallina text)
        self.effs = []       # unordered: (sort key, Gallina text)
        self.nalloc = 0
        self.ncall = 0
        self.stored = set()  # base tokens that were stored through on this path
        self.havoc = False   # a call of unknown footprint happened: every field may have changed
        self.unknown = set() # locations invalidated by a call with a declared footprint
        self.reach = ()      # tokens handed to a call of unknown footprint: everything reached through them is unknown
        self.inval = {}      # location -> how many times it was invalidated
        self.copies = {}     # (token, path) of a struct local -> (token, path) of the struct it was assigned from
        self.nres = 0        # calls returning a struct by value
        self.defs = {}       # SSA name -> defining text (to close a value over the inputs)
        self.lets = []       # pending `let`s
    def clone(self):
        s = St()
        s.env = dict(self.env); s.ints = dict(self.ints); s.ptrs = dict(self.ptrs)
        s.reqs = list(self.reqs); s.effs = list(self.effs)
        s.nalloc, s.ncall = self.nalloc, self.ncall
        s.stored = set(self.stored); s.havoc = self.havoc
        s.unknown = set(self.unknown); s.reach = self.reach; s.inval = dict(self.inval); s.copies = dict(self.copies); s.nres = self.nres
        s.defs = dict(self.defs)
        s.lets = []
        return s

class Cx:
    def __init__(self, spec, tu, alltu, sizes):
        self.spec, self.tu, self.alltu, self.sizes = spec, tu, alltu, sizes
        self.n = 0
        self.max_alloc = 0
        self.max_call = 0
        self.depth = 0
        self.byvalue = set()     # tokens of structs passed by value: no callee can change them
        self.labels = {}         # label decl id -> statements that follow the label
        self.loops = {}          # loop node id -> index (source order)
        self.loop_rest = {}      # loop index -> (loop node, continuation) at its first encounter
        self.segment = None      # None = from the function entry; k = from the head of loop k
        self.phase = "B"         # "A": discovery (loop-carried locals are placeholders), "B": final
        self.loopinfo = {}       # loop index -> {"assigned", "arrivals", "backs", "class", "accs"}
        self.scalars = {}        # decl id -> (name, type) of the scalar locals and parameters
    def fresh(self, base):
        self.n += 1
        return "%s_%d" % (base, self.n)
    def field_name(self, key):
        return self.spec["fields"].get(key)
    def enum(self, name):
        for tu in [self.tu] + list(self.alltu.values()):
            if name in tu["enums"]:
                return tu["enums"][name]
        raise Unsupported("enum constant " + name)
    def function(self, name):
        for tu in [self.tu] + list(self.alltu.values()):
            if name in tu["functions"]:
                return tu["functions"][name]
        return None
    def global_const(self, name):
        for tu in [self.tu] + list(self.alltu.values()):
            if name in tu["globals"]:
                return tu["globals"][name]
        return None
    def record(self, tname):
        tname = unconst(tname)
        for tu in [self.tu] + list(self.alltu.values()):
            t, seen = tname, 0
            while t in tu["typedefs"] and seen < 8:
                t = unconst(tu["typedefs"][t]); seen += 1
            if t in tu["records"]:
                return tu["records"][t]
        raise Unsupported("record type " + tname)

SIZEOF = {"cbor_item_t": "sizeof_item", "struct cbor_item_t": "sizeof_item", "struct cbor_pair": "sizeof_pair",
          "struct cbor_indefinite_string_data": "sizeof_isd", "struct _cbor_stack_record": "sizeof_rec"}

def sizeof_type(t, cx):
    t = unconst(t)
    if t.endswith("*"):
        key = "sizeof_ptr"
    elif t in SIZEOF:
        key = SIZEOF[t]
    else:
        try:
            w, _ = int_width(t, cx)
            return w // 8
        except Unsupported:
            raise Unsupported("sizeof(" + t + ")")
    if key not in cx.sizes:
        raise Unsupported("sizeof(" + t + ") not reported by the build")
    return int(cx.sizes[key])

# ------------------------------------------------------------------------------------------
# known callees

ALLOC = {"_cbor_malloc": "ReqMalloc", "_cbor_realloc": "ReqRealloc", "_cbor_alloc_multiple": "ReqAllocMultiple",
         "_cbor_realloc_multiple": "ReqReallocMultiple"}
REFCOUNT = {"cbor_incref": "Incref", "cbor_move": "Move", "cbor_intermediate_decref": "Decref"}
PURE_LEAF = {"_cbor_encoded_header_size": "fb_cbor_encoded_header_size",
             "_cbor_safe_to_multiply": "fb_cbor_safe_to_multiply", "_cbor_safe_to_add": "fb_cbor_safe_to_add",
             "_cbor_safe_signaling_add": "fb_cbor_safe_signaling_add", "_cbor_highest_bit": "fb_cbor_highest_bit"}
EFF_RANK = {"Incref": 1, "Decref": 2, "Move": 3, "Store": 4, "Fill": 5, "Copy": 6, "SetPtr": 7, "SetInt": 8, "Carry": 9}

# ------------------------------------------------------------------------------------------
# expressions

def derives(t, a):
    """is token t the token a, or built from it (a field / slot / post-call value reached through a)?"""
    while True:
        if t == a:
            return True
        if t[0] in ("field", "slot", "post"):
            t = t[1]
        else:
            return False

def resolve(st, tok, path):
    """a struct local that was assigned from another struct (a call result) reads through to it"""
    for i in range(len(path), -1, -1):
        src = st.copies.get((tok, path[:i]))
        if src is not None:
            return src[0], src[1] + path[i:]
    return tok, path

def is_invalid(key, st, cx):
    return key in st.unknown or (st.havoc and key[0] not in cx.byvalue)

def invalidate(st, cx, keys=None, args=()):
    """a call may have changed: the listed locations (declared footprint of a listed callee), or
       (keys=None, unknown footprint) everything reachable from its pointer arguments `args` plus
       the fields the table declares as `post`; (keys=None, args=None) everything"""
    post = cx.spec.get("post", {})
    if keys is None and args is None:
        st.havoc = True
        for k in list(st.ints):
            if k[0] not in cx.byvalue and k[0][0] != "new":
                del st.ints[k]
        for k in list(st.ptrs):
            if k[0] not in cx.byvalue and k[0][0] != "new":
                del st.ptrs[k]
        for k in post:
            st.inval[k] = st.inval.get(k, 0) + 1
        return
    if keys is None:
        keys = set(post)
        for k in list(st.ints) + list(st.ptrs) + list(cx.spec["fields"]):
            if any(derives(k[0], a) for a in args):
                keys.add(k)
        st.reach = st.reach + tuple(args)
    for k in keys:
        st.unknown.add(k)
        st.inval[k] = st.inval.get(k, 0) + 1
        st.ints.pop(k, None)
        st.ptrs.pop(k, None)

def reach_invalid(key, st):
    return any(derives(key[0], a) for a in st.reach)

def let_int(st, cx, base, text):
    """bind an integer value to a fresh SSA name"""
    name = cx.fresh(base)
    st.lets.append("let %s := %s in" % (name, text))
    st.defs[name] = text
    return name

def expand(st, text):
    """close a Gallina text over the function's inputs: replace SSA names by their definitions"""
    for _ in range(64):
        new = _re.sub(r"[A-Za-z_][A-Za-z_0-9']*", lambda m: "(%s)" % st.defs[m.group(0)] if m.group(0) in st.defs else m.group(0), text)
        if new == text:
            return unparen(text)
        text = new
    raise Unsupported("cyclic definitions")

def unparen(t):
    """drop redundant enclosing parentheses: ((e)) -> (e), (atom) -> atom"""
    def matching(t):
        d = 0
        for i, ch in enumerate(t):
            d += ch == "("
            d -= ch == ")"
            if d == 0:
                return i == len(t) - 1
        return False
    while t.startswith("(") and t.endswith(")") and matching(t):
        inner = t[1:-1]
        if (inner.startswith("(") and inner.endswith(")") and matching(inner)) or _re.match(r"^[A-Za-z_0-9']+$", inner):
            t = inner
        else:
            break
    return t

def expand_val(st, v):
    if v[0] == "int":
        return ("int", expand(st, v[1]))
    if v[0] == "eptr":
        return ("eptr", expand_tok(st, v[1]), expand(st, v[2]))
    if v[0] == "ptr":
        return ("ptr", expand_tok(st, v[1]), v[2])
    return v

def expand_tok(st, t):
    if t[0] in ("field", "post"):
        return (t[0], expand_tok(st, t[1]), t[2])
    if t[0] == "slot":
        return ("slot", expand_tok(st, t[1]), expand(st, t[2]), t[3])
    return t

def path_text(path):
    return ".".join(path)

def LV(n, st, cx):
    """lvalue of an expression node:
       ('var', id, name) | ('loc', token, path) | ('slot', base token, idx text, path)"""
    k = n.get("kind")
    if k in ("ParenExpr",):
        return LV(n["inner"][-1], st, cx)
    if k == "DeclRefExpr":
        d = n["referencedDecl"]
        if d.get("kind") in ("VarDecl", "ParmVarDecl"):
            did = d.get("id")
            if did in st.env:
                v = st.env[did]
                if v[0] == "objv":          # struct passed / held by value: its members are locations
                    return ("loc", v[1], v[2])
                return ("var", did, d.get("name"))
            if cx.spec.get("precise"):
                g = cx.global_const(d.get("name"))
                if g is not None:
                    return ("const", str(g))
            raise Unsupported("global or unknown variable " + str(d.get("name")))
        raise Unsupported("reference to " + str(d.get("kind")))
    if k == "MemberExpr":
        base = n["inner"][0]
        if n.get("isArrow"):
            p = RV(base, st, cx)
            if p[0] == "eptr" or (p[0] == "ptr" and p[2] == () and p[1] != NULL and is_elem_ptr(base, cx)):
                # a pointer into an array of pairs: p->m is the member m of the element it points at
                blv = ("slot", p[1], p[2] if p[0] == "eptr" else "0", ())
            else:
                if p[0] != "ptr":
                    raise Unsupported("-> on a non-pointer")
                tok, path = p[1], p[2]
                if tok == NULL:
                    raise Unsupported("member of NULL")
                blv = ("loc", tok, path)
        else:
            blv = LV(base, st, cx)
        # a member of a union: the arm name is dropped (all arms of cbor_item_metadata that are used
        # by one function lay the same names over the same storage)
        bt = unconst(desugared(base))
        if n.get("isArrow"):
            bt = bt[:-1].strip() if bt.endswith("*") else bt
        drop = bt.startswith("union ")
        name = n.get("name")
        if blv[0] == "loc":
            t2, p2 = resolve(st, blv[1], blv[2] if drop else blv[2] + (name,))
            return ("loc", t2, p2)
        if blv[0] == "slot":
            return ("slot", blv[1], blv[2], blv[3] if drop else blv[3] + (name,))
        raise Unsupported("member of a local variable")
    if k == "ArraySubscriptExpr":
        b, i = n["inner"]
        p = RV(b, st, cx)
        iv = RV(i, st, cx)
        if p[0] == "eptr" and iv[0] == "int":
            return ("slot", p[1], "(%s + %s)" % (p[2], iv[1]), ())
        if p[0] != "ptr" or iv[0] != "int":
            raise Unsupported("subscript")
        if p[2] != ():
            raise Unsupported("subscript of an interior pointer")
        if p[1] == NULL:
            raise Unsupported("subscript of NULL")
        return ("slot", p[1], iv[1], ())
    if k == "UnaryOperator" and n.get("opcode") == "*":
        p = RV(n["inner"][0], st, cx)
        if p[0] == "eptr":
            return ("slot", p[1], p[2], ())
        if p[0] == "ptr" and p[2] == () and p[1] != NULL and p[1][0] != "arg" and is_elem_ptr(n["inner"][0], cx):
            return ("slot", p[1], "0", ())      # *p for a pointer into an array of item pointers
        if p[0] != "ptr":
            raise Unsupported("* on a non-pointer")
        return ("loc", p[1], p[2])
    raise Unsupported("lvalue " + str(k))

ELEM_TYPES = ("cbor_item_t**", "struct cbor_item_t**", "struct cbor_pair*")

def is_elem_ptr(n, cx):
    """(decoder / serializer group only) is the expression a pointer into a slot array: cbor_item_t** or
       struct cbor_pair*?  Such a pointer is `base + index`; *p, p[i], p->m, p++ address elements"""
    return bool(cx.spec.get("precise")) and unconst(desugared(n)).replace(" ", "") in tuple(t.replace(" ", "") for t in ELEM_TYPES)

def read(lv, n, st, cx):
    if lv[0] == "const":
        return ("int", lv[1])
    if lv[0] == "var":
        v = st.env[lv[1]]
        if v[0] == "uninit":
            raise Unsupported("read of the uninitialised local " + str(lv[2]))
        if v[0] == "stale":
            raise Unsupported("scalar local %s is live across a loop" % str(lv[2]))
        return v
    kind = node_kind_of_type(n, cx)
    if lv[0] == "loc":
        key = (lv[1], lv[2])
        if kind == "int":
            if key in st.ints:
                return ("int", st.ints[key])
            if is_invalid(key, st, cx) or reach_invalid(key, st):
                nm = cx.spec.get("post", {}).get(key)
                if nm is not None and st.inval.get(key, 0) == 1:
                    return ("int", "g_" + nm)      # its value after the one call that may have changed it
                raise Unsupported("integer field read after an opaque call")
            nm = cx.field_name(key)
            if nm is None:
                raise Unsupported("read of the undeclared integer field %s of %s" % (path_text(lv[2]), tok_text(lv[1])))
            return ("int", "f_" + nm)
        if kind == "ptr":
            if key in st.ptrs:
                return st.ptrs[key]
            if is_invalid(key, st, cx) or reach_invalid(key, st):
                if lv[2] and cx.spec.get("post") is not None:
                    return ("ptr", ("post", lv[1], path_text(lv[2])), ())   # its value after the last such call
                raise Unsupported("pointer field read after an opaque call")
            if lv[1][0] == "new":
                raise Unsupported("read of an unwritten field of a fresh block")
            if not lv[2]:
                if cx.spec.get("precise") and lv[1][0] == "arg":
                    return ("ptr", ("field", lv[1], "*"), ())      # what a pointer-to-pointer parameter points at
                raise Unsupported("pointer read through a pointer to pointer")
            return ("ptr", ("field", lv[1], path_text(lv[2])), ())
        return ("objv", lv[1], lv[2])
    if lv[0] == "slot":
        if kind != "ptr":
            raise Unsupported("read of a non-pointer slot")
        if lv[1] in st.stored or st.havoc or st.unknown:
            raise Unsupported("slot read after a store through the same base")
        return ("ptr", ("slot", lv[1], lv[2], path_text(lv[3])), ())
    raise Unsupported("read")

def write(lv, val, n, st, cx):
    """store val into lvalue lv (n: the lvalue's expression node, for its type)"""
    if lv[0] == "var":
        if val[0] == "int":
            val = ("int", let_int(st, cx, "v_" + str(lv[2]), val[1]))
        st.env[lv[1]] = val
        return
    if lv[0] == "loc":
        key = (lv[1], lv[2])
        if val[0] == "int":
            nm = cx.field_name(key) or ("u_" + (path_text(lv[2]).replace(".", "_") or "obj"))
            st.ints[key] = let_int(st, cx, "f_" + nm, val[1])
            st.unknown.discard(key)
            return
        if val[0] == "ptr":
            if val[2] != ():
                raise Unsupported("interior pointer stored")
            if not lv[2] and not (cx.spec.get("precise") and lv[1][0] == "arg"):
                raise Unsupported("store through a pointer to pointer")
            st.ptrs[key] = val
            st.unknown.discard(key)
            return
        if val[0] == "init":
            write_init(lv[1], lv[2], val[1], st, cx)
            return
        if val[0] == "objv" and lv[1][0] == "local" and val[1][0] == "res":
            st.copies[(lv[1], lv[2])] = (val[1], val[2])
            return
        raise Unsupported("struct copy")
    if lv[0] == "slot":
        if val[0] != "ptr" or val[2] != ():
            raise Unsupported("non-pointer slot store")
        st.stored.add(lv[1])
        text = "Store %s %s \"%s\" %s" % (tok_text(lv[1]), lv[2], path_text(lv[3]), tok_text(val[1]))
        st.effs.append(((EFF_RANK["Store"], tok_key(lv[1]), path_text(lv[3]), tok_key(val[1]), lv[2]), text, lv[1]))
        return
    raise Unsupported("write")

def write_init(tok, path, items, st, cx):
    """*p = (T){...}: every member of the initialiser is one field write"""
    for sub, v in items:
        if v[0] == "init":
            write_init(tok, path + sub, v[1], st, cx)
        elif v[0] == "int":
            key = (tok, path + sub)
            nm = cx.field_name(key) or ("u_" + path_text(path + sub).replace(".", "_"))
            st.ints[key] = let_int(st, cx, "f_" + nm, v[1])
            st.unknown.discard(key)
        elif v[0] == "ptr":
            if v[2] != ():
                raise Unsupported("interior pointer stored")
            st.ptrs[(tok, path + sub)] = v
            st.unknown.discard((tok, path + sub))
        else:
            raise Unsupported("initialiser member")

def init_list(n, st, cx):
    """InitListExpr (semantic form) -> [(sub-path, value)]"""
    t = unconst(desugared(n))
    items = []
    inner = [x for x in n.get("inner", [])]
    if t.startswith("union "):
        f = n.get("field")
        if f is None or len(inner) != 1:
            raise Unsupported("union initialiser")
        # the arm name is dropped, as in member accesses
        v = init_value(inner[0], st, cx)
        if v[0] == "init":
            return v[1]
        raise Unsupported("scalar union arm")
    fields = cx.record(t)
    if len(fields) != len(inner):
        raise Unsupported("initialiser shape")
    for (fname, ftype), x in zip(fields, inner):
        v = init_value(x, st, cx)
        items.append(((fname,), v))
    return items

def init_value(x, st, cx):
    if x.get("kind") == "InitListExpr":
        return ("init", init_list(x, st, cx))
    if x.get("kind") == "ImplicitValueInitExpr":
        k = node_kind_of_type(x, cx)
        if k == "int":
            return ("int", "0")
        if k == "ptr":
            return ("ptr", NULL, ())
        raise Unsupported("implicit struct initialiser")
    return RV(x, st, cx)

def nonnull(p, st, cx):
    """Gallina bool text: is the pointer value non-NULL?"""
    if p[0] != "ptr":
        raise Unsupported("nullness of a non-pointer")
    if p[2] != ():
        return "true"
    t = p[1]
    if t == NULL:
        return "false"
    if t[0] == "new":
        return "ok_%d" % t[1]
    if t[0] == "arg" and t[1] in cx.spec.get("nullable", ()):
        return "nn_%d" % t[1]               # an out-parameter the caller may pass as NULL
    shape = ("slot", t[3]) if t[0] == "slot" else (("field", t[2]) if t[0] == "field" else None)
    if shape in cx.spec.get("nulltests", {}):
        return "nn_" + cx.spec["nulltests"][shape]      # is this element / child pointer non-NULL: an input
    if any(key in ((EFF_RANK["Incref"], tok_key(t)), (EFF_RANK["Move"], tok_key(t))) for key, _, _ in st.effs):
        return "true"       # cbor_incref / cbor_move already dereferenced it on this path
    raise Unsupported("nullness of the opaque pointer " + tok_text(t))

def RV(n, st, cx):
    """value of an expression node: ('int', text) | ('ptr', token, path) | ('objv', token, path) |
       ('init', items) | ('void',)"""
    k = n.get("kind")
    if k in ("ParenExpr", "ConstantExpr"):
        return RV(n["inner"][-1], st, cx)
    if k == "IntegerLiteral":
        return ("int", str(int(n["value"])))
    if k == "CharacterLiteral":
        return ("int", str(int(n["value"])))
    if k == "CXXBoolLiteralExpr":
        return ("int", "1" if n.get("value") else "0")
    if k in ("ImplicitCastExpr", "CStyleCastExpr"):
        ck = n.get("castKind")
        inner = n["inner"][-1]
        if ck == "LValueToRValue":
            if inner.get("kind") == "CompoundLiteralExpr":
                return RV(inner, st, cx)
            return read(LV(inner, st, cx), n, st, cx)
        if ck == "BitCast":
            # AUDIT2: `*(uint32_t*)&metadata->end_ptr` reads part of the field; a cast between pointers to integers of different
            # widths is not transparent (casts between struct pointers - the arms of the metadata union - still are)
            def _pointee_bits(x):
                t = unconst(desugared(x))
                if not t.endswith("*"):
                    return None
                try:
                    return int_width(t[:-1].strip(), cx)[0]
                except Unsupported:
                    return None
            pa, pb = _pointee_bits(n), _pointee_bits(inner)
            if pa is not None and pb is not None and pa != pb:
                raise Unsupported("pointer cast between integer types of different widths")
            return RV(inner, st, cx)
        if ck in ("NoOp", "FunctionToPointerDecay"):
            return RV(inner, st, cx)
        if ck == "NullToPointer":
            return ("ptr", NULL, ())
        if ck == "ToVoid":
            RV(inner, st, cx)
            return ("void",)
        if ck == "IntegralCast":
            w, signed = int_width(qual(n) if unconst(qual(n)) in UNSIGNED or unconst(qual(n)) in SIGNED else desugared(n), cx)
            v = RV(inner, st, cx)
            if v[0] != "int":
                raise Unsupported("integral cast of a non-integer")
            if signed:
                # AUDIT2: a conversion to a NARROWER signed type (or from an unsigned type of the same width) is not the
                # identity: `(int)(index - end_ptr) == 0` holds for every index congruent to end_ptr modulo 2^32
                try:
                    ws, ss = int_width(qual(inner) if unconst(qual(inner)) in UNSIGNED or unconst(qual(inner)) in SIGNED else desugared(inner), cx)
                except Unsupported:
                    ws, ss = 64, False
                lit0 = cast.strip(inner)
                small = lit0.get("kind") == "IntegerLiteral" and 0 <= int(lit0["value"]) < (1 << (w - 1))
                if ws < w or (ss and ws <= w) or small or (lit0.get("kind") == "DeclRefExpr" and lit0.get("referencedDecl", {}).get("kind") == "EnumConstantDecl"):
                    return v
                return ("int", "(swrapz %d %s)" % (w, v[1]))
            lit = cast.strip(inner)
            if lit.get("kind") == "IntegerLiteral" and 0 <= int(lit["value"]) < (1 << w):
                return v
            if lit.get("kind") == "DeclRefExpr" and lit.get("referencedDecl", {}).get("kind") == "EnumConstantDecl":
                return v
            return ("int", wrapz(w, v[1]))
        if ck == "IntegralToBoolean":
            v = RV(inner, st, cx)
            return ("int", "(b2z (nz %s))" % v[1])
        if ck == "PointerToBoolean":
            return ("int", "(b2z %s)" % nonnull(RV(inner, st, cx), st, cx))
        raise Unsupported("cast " + str(ck))
    if k == "DeclRefExpr":
        d = n["referencedDecl"]
        if d.get("kind") == "EnumConstantDecl":
            return ("int", str(cx.enum(d["name"])))
        raise Unsupported("variable used as a value without a load")
    if k == "UnaryExprOrTypeTraitExpr":
        if n.get("name") == "sizeof":
            if "argType" in n:
                return ("int", str(sizeof_type(n["argType"].get("desugaredQualType") or n["argType"].get("qualType", "?"), cx)))
            return ("int", str(sizeof_type(desugared(n["inner"][0]), cx)))
        raise Unsupported("type trait")
    if k == "CompoundLiteralExpr":
        x = n["inner"][0]
        if x.get("kind") != "InitListExpr":
            raise Unsupported("compound literal")
        return ("init", init_list(x, st, cx))
    if k == "BinaryOperator":
        op = n["opcode"]
        a, b = n["inner"]
        if op == "=":
            lv = LV(a, st, cx)
            v = RV(b, st, cx)
            write(lv, v, a, st, cx)
            return v
        if op == ",":
            if not cx.spec.get("precise"):
                raise Unsupported("comma operator")
            RV(a, st, cx)
            return RV(b, st, cx)
        if op in ("&&", "||"):
            va = RV(a, st, cx)
            mark = (len(st.lets), len(st.reqs), len(st.effs), dict(st.ints), dict(st.ptrs))
            vb = RV(b, st, cx)
            if (len(st.lets), len(st.reqs), len(st.effs), st.ints, st.ptrs) != mark:
                raise Unsupported("side effect under a short-circuit operator")
            ta, tb = truth(va, st, cx), truth(vb, st, cx)
            return ("int", "(b2z (%s %s %s))" % (ta, "&&" if op == "&&" else "||", tb))
        va, vb = RV(a, st, cx), RV(b, st, cx)
        if op == "+" and va[0] == "ptr" and va[2] == () and vb[0] == "int" and unconst(desugared(a)) in ("unsigned char*", "char*"):
            return ("ptroff", va[1], vb[1])      # byte pointer plus offset: only ever a call argument
        if op == "+" and va[0] == "ptroff" and vb[0] == "int":
            return ("ptroff", va[1], "(%s + %s)" % (va[2], vb[1]))
        if op == "+" and va[0] in ("ptr", "eptr") and vb[0] == "int" and is_elem_ptr(a, cx) and (va[0] == "eptr" or va[2] == ()):
            return ("eptr", va[1], "(%s + %s)" % (va[2] if va[0] == "eptr" else "0", vb[1]))
        if va[0] == "ptr" or vb[0] == "ptr":
            if op not in ("==", "!="):
                raise Unsupported("pointer arithmetic")
            if va[0] != "ptr" or vb[0] != "ptr":
                raise Unsupported("pointer compared with a non-pointer")
            if vb[1] == NULL and vb[2] == ():
                nn = nonnull(va, st, cx)
            elif va[1] == NULL and va[2] == ():
                nn = nonnull(vb, st, cx)
            else:
                raise Unsupported("comparison of two opaque pointers")
            return ("int", "(b2z %s)" % (nn if op == "!=" else "(negb %s)" % nn))
        if va[0] != "int" or vb[0] != "int":
            raise Unsupported("operands of " + op)
        ea, eb = va[1], vb[1]
        if op in ("<", "<=", ">", ">=", "=="):
            c = {"<": "<?", "<=": "<=?", ">": ">?", ">=": ">=?", "==": "=?"}[op]
            return ("int", "(b2z (%s %s %s))" % (ea, c, eb))
        if op == "!=":
            return ("int", "(b2z (negb (%s =? %s)))" % (ea, eb))
        w, signed = int_width(qual(n) if unconst(qual(n)) in UNSIGNED or unconst(qual(n)) in SIGNED else desugared(n), cx)
        if op in ("+", "-", "*"):
            r = "(%s %s %s)" % (ea, op, eb)
            return ("int", r if signed else wrapz(w, r))
        if op == "/":
            lit = cast.strip(b)
            if lit.get("kind") == "IntegerLiteral" and int(lit["value"]) > 0 and not signed:
                return ("int", "(%s / %s)" % (ea, eb))
            raise Unsupported("division")
        if op == "%":
            lit = cast.strip(b)
            if lit.get("kind") == "IntegerLiteral" and int(lit["value"]) > 0 and not signed:
                return ("int", "(%s mod %s)" % (ea, eb))
            raise Unsupported("remainder")
        if op == ">>":
            return ("int", "(Z.shiftr %s %s)" % (ea, eb))
        if op == "<<":
            r = "(Z.shiftl %s %s)" % (ea, eb)
            return ("int", r if signed else wrapz(w, r))
        if op == "^" and not signed:
            return ("int", "(Z.lxor %s %s)" % (ea, eb))
        raise Unsupported("operator " + op)
    if k == "CompoundAssignOperator":
        op = n["opcode"]
        a, b = n["inner"]
        lv = LV(a, st, cx)
        old = read(lv, a, st, cx)
        vb = RV(b, st, cx)
        if old[0] != "int" or vb[0] != "int" or op not in ("+=", "-=", "*=", "^="):
            raise Unsupported("compound assignment " + op)
        w, signed = int_width(qual(a) if unconst(qual(a)) in UNSIGNED else desugared(a), cx)
        if op == "^=":
            if signed:
                raise Unsupported("compound assignment ^= on a signed value")
            # the right operand is converted to the left type first; xor of two in-range values is in range
            v = ("int", "(Z.lxor %s %s)" % (old[1], vb[1]))
        else:
            r = "(%s %s %s)" % (old[1], op[0], vb[1])
            v = ("int", r if signed else wrapz(w, r))
        write(lv, v, a, st, cx)
        return read(lv, a, st, cx)
    if k == "UnaryOperator":
        op = n["opcode"]
        x = n["inner"][0]
        if op == "!":
            v = RV(x, st, cx)
            return ("int", "(b2z (negb %s))" % truth(v, st, cx))
        if op == "&":
            lv = LV(x, st, cx)
            if lv[0] == "loc":
                return ("ptr", lv[1], lv[2])
            if lv[0] == "slot" and lv[3] == () and cx.spec.get("precise"):
                return ("eptr", lv[1], lv[2])        # &base[i]: a pointer to element i
            raise Unsupported("address of a local or a slot")
        if op == "*":
            return read(LV(n, st, cx), n, st, cx)
        if op in ("++", "--"):
            lv = LV(x, st, cx)
            old = read(lv, x, st, cx)
            if old[0] in ("ptr", "eptr") and lv[0] == "var" and is_elem_ptr(x, cx) and (old[0] == "eptr" or old[2] == ()):
                off = old[2] if old[0] == "eptr" else "0"
                new = ("eptr", old[1], "(%s %s 1)" % (off, "+" if op == "++" else "-"))
                st.env[lv[1]] = new
                return old if n.get("isPostfix") else new
            if old[0] != "int":
                raise Unsupported(op + " on a non-integer")
            w, signed = int_width(qual(x) if unconst(qual(x)) in UNSIGNED else desugared(x), cx)
            r = "(%s %s 1)" % (old[1], "+" if op == "++" else "-")
            write(lv, ("int", r if signed else wrapz(w, r)), x, st, cx)
            return old if n.get("isPostfix") else read(lv, x, st, cx)
        if op == "-":
            v = RV(x, st, cx)
            w, signed = int_width(desugared(n), cx)
            if v[0] == "int" and signed:
                return ("int", "(- %s)" % v[1])
        raise Unsupported("unary " + op)
    if k in ("MemberExpr", "ArraySubscriptExpr"):
        raise Unsupported("lvalue used without a load")
    if k == "ConditionalOperator":
        c, a, b = n["inner"]
        vc = RV(c, st, cx)
        mark = (len(st.lets), len(st.reqs), len(st.effs), dict(st.ints), dict(st.ptrs))
        va, vb = RV(a, st, cx), RV(b, st, cx)
        if (len(st.lets), len(st.reqs), len(st.effs), st.ints, st.ptrs) != mark:
            raise Unsupported("side effect inside ?:")
        if va[0] != "int" or vb[0] != "int":
            raise Unsupported("?: over non-integers")
        return ("int", "(if %s then %s else %s)" % (truth(vc, st, cx), va[1], vb[1]))
    if k == "CallExpr":
        return call(n, st, cx)
    raise Unsupported("expression " + str(k))

def truth(v, st, cx):
    """Gallina bool text of a C condition value"""
    if v[0] == "int":
        return "(nz %s)" % v[1]
    if v[0] == "ptr":
        return nonnull(v, st, cx)
    raise Unsupported("condition")

def arg_text(v):
    if v[0] == "int":
        return "AZ %s" % v[1]
    if v[0] == "ptr" and v[2] == ():
        return "AP %s" % tok_text(v[1])
    if v[0] == "ptroff":
        return "APO %s %s" % (tok_text(v[1]), v[2])
    if v[0] == "opq":
        return "AOpaque %d" % v[1]
    if v[0] == "opqv":
        return "AVal \"%s\" %s" % (v[1], tok_text(v[2]))
    if v[0] == "eptr":
        raise Unsupported("element pointer as a call argument")
    if v[0] == "init":          # a struct passed by value, written as a compound literal: its members in order
        return "AStruct [%s]" % "; ".join(arg_text(x) for _, x in v[1])
    raise Unsupported("call argument")

HELPERS = _re.compile(r"^(cbor_(byte)?string_set_handle|cbor_mark_(uint|negint)|cbor_set_(uint(8|16|32|64)|float[248]|bool|ctrl))$")
CONSTRUCTORS = _re.compile(r"^cbor_(new|build)_[a-z0-9_]+$")
STRUCT_CALLS = {"cbor_stream_decode"}
ENCODERS = _re.compile(r"^cbor_encode_[a-z0-9_]+$")          # write bytes into the buffer window, return the count
FLOAT_GETTERS = _re.compile(r"^cbor_float_get_float[248]?$")

def subst_arg(tok, vals):
    if tok[0] == "arg":
        v = vals[tok[1]]
        if v[0] != "ptr" or v[2] != ():
            raise Unsupported("footprint of a call through a non-pointer argument")
        return v[1]
    if tok[0] == "field":
        return ("field", subst_arg(tok[1], vals), tok[2])
    raise Unsupported("footprint token")

def footprint(callee, vals, st, cx):
    """invalidate what the listed callee may write (its table entry), in the caller's tokens"""
    if callee.get("writes") is None or not cx.spec.get("precise"):
        invalidate(st, cx, None, None)
        return
    keys = set()
    for tok, path in callee["writes"]:
        keys.add((subst_arg(tok, vals), path))
    invalidate(st, cx, keys)

def call(n, st, cx):
    f = cast.strip(n["inner"][0])
    if f.get("kind") != "DeclRefExpr":
        raise Unsupported("indirect call")
    name = f["referencedDecl"]["name"]
    args = n["inner"][1:]
    if name in ALLOC:
        vals = [RV(a, st, cx) for a in args]
        k = st.nalloc
        if k >= cx.spec["oracles"]:
            raise Unsupported("more allocator calls on a path than declared")
        parts = []
        for v in vals:
            if v[0] == "int":
                parts.append(v[1])
            elif v[0] == "ptr" and v[2] == ():
                parts.append(tok_text(v[1]))
            else:
                raise Unsupported("allocator argument")
        expect = {"ReqMalloc": "i", "ReqRealloc": "pi", "ReqAllocMultiple": "ii", "ReqReallocMultiple": "pii"}[ALLOC[name]]
        if "".join("i" if v[0] == "int" else "p" for v in vals) != expect:
            raise Unsupported("allocator argument kinds")
        st.reqs.append("%s %s" % (ALLOC[name], " ".join(parts)))
        st.nalloc += 1
        cx.max_alloc = max(cx.max_alloc, st.nalloc)
        return ("ptr", ("new", k), ())
    if name == "_cbor_free":
        v = RV(args[0], st, cx)
        if v[0] != "ptr" or v[2] != ():
            raise Unsupported("free of a non-pointer")
        st.reqs.append("ReqFree %s" % tok_text(v[1]))
        return ("void",)
    ordered = cx.spec.get("ordered_decref")
    if name == "cbor_intermediate_decref":
        # AUDIT2: summarised BY NAME as one release of its argument, and not a listed function with a plan of its own:
        # its current body must be exactly `cbor_decref(&item);`
        fn_ = cx.function(name)
        body_ = [x for x in (fn_[1].get("inner", []) if fn_ else []) if x.get("kind") not in ("NullStmt",)]
        pn_ = [p_.get("name") for p_ in (fn_[0].get("inner", []) if fn_ else []) if p_.get("kind") == "ParmVarDecl"]
        if not (fn_ and len(pn_) == 1 and len(body_) == 1
                and cast.expr(body_[0]) == ("call", ("var", "cbor_decref"), [("un", "&", ("var", pn_[0]))])):
            raise Unsupported("cbor_intermediate_decref is not `cbor_decref(&item)` any more")
    if name in REFCOUNT and name != cx.spec["name"] and not (ordered and name == "cbor_intermediate_decref"):
        v = RV(args[0], st, cx)
        if v[0] != "ptr" or v[2] != ():
            raise Unsupported("reference-count call on a non-pointer")
        st.effs.append(((EFF_RANK[REFCOUNT[name]], tok_key(v[1])), "%s %s" % (REFCOUNT[name], tok_text(v[1])), None))
        return v if name != "cbor_intermediate_decref" else ("void",)
    if name in ("cbor_decref", "cbor_intermediate_decref"):
        a = cast.strip(args[0])
        v = None
        if name == "cbor_intermediate_decref":
            v = RV(args[0], st, cx)
        elif a.get("kind") == "UnaryOperator" and a.get("opcode") == "&":
            x = a["inner"][0]
            v = read(LV(x, st, cx), x, st, cx)
        elif cx.spec.get("precise"):
            pv = RV(args[0], st, cx)
            if pv[0] == "eptr":          # a pointer into a slot array: the element it points at
                v = ("ptr", ("slot", pv[1], pv[2], ""), ())
        if v is not None and v[0] == "ptr" and v[2] == ():
            if ordered:
                # in the decoder glue a release is an event: it is ordered with the other calls
                st.reqs.append("ReqCall \"cbor_decref\" [AP %s]" % tok_text(v[1]))
            else:
                st.effs.append(((EFF_RANK["Decref"], tok_key(v[1])), "Decref %s" % tok_text(v[1]), None))
            return ("void",)
        raise Unsupported("cbor_decref argument")
    if name == "memcpy":
        vals = [RV(a, st, cx) for a in args]
        if len(vals) == 3 and vals[0][0] == "ptroff" and vals[1][0] == "ptr" and vals[1][2] == () and vals[2][0] == "int":
            st.effs.append(((EFF_RANK["Copy"], tok_key(vals[0][1]), tok_key(vals[1][1])),
                            "CopyAt %s %s %s %s" % (tok_text(vals[0][1]), vals[0][2], tok_text(vals[1][1]), vals[2][1]), vals[0][1]))
            return ("void",)
        if len(vals) != 3 or vals[0][0] != "ptr" or vals[1][0] != "ptr" or vals[2][0] != "int" or vals[0][2] != () or vals[1][2] != ():
            raise Unsupported("memcpy arguments")
        st.effs.append(((EFF_RANK["Copy"], tok_key(vals[0][1]), tok_key(vals[1][1])),
                        "Copy %s %s %s" % (tok_text(vals[0][1]), tok_text(vals[1][1]), vals[2][1]), vals[0][1]))
        return ("void",)
    if name == "__builtin_unreachable":
        return ("void",)
    if cx.spec.get("precise") and name in cx.spec.get("getters", {}):
        # the payload of an integer item (read through item->data): a declared input
        v = RV(args[0], st, cx)
        if v[0] != "ptr" or v[2] != () or v[1] != ("arg", 0):
            raise Unsupported("payload getter on another item")
        return ("int", "f_" + cx.spec["getters"][name])
    if cx.spec.get("precise") and FLOAT_GETTERS.match(name):
        v = RV(args[0], st, cx)
        if v[0] != "ptr" or v[2] != ():
            raise Unsupported("float getter argument")
        return ("opqv", name, v[1])
    if cx.spec.get("precise") and ENCODERS.match(name) and name not in LISTED:
        vals = [RV(a, st, cx) for a in args]
        k = st.ncall
        if k >= cx.spec.get("calls", 0):
            raise Unsupported("more opaque calls on a path than declared")
        st.reqs.append("ReqCall \"%s\" [%s]" % (name, "; ".join(arg_text(v) for v in vals)))
        st.ncall += 1
        return ("int", "c_%d" % k)
    if name in PURE_LEAF:
        vals = [RV(a, st, cx) for a in args]
        if any(v[0] != "int" for v in vals):
            raise Unsupported("leaf call argument")
        return ("int", "(%s %s)" % (PURE_LEAF[name], " ".join(v[1] for v in vals)))
    if name in STRUCT_CALLS and cx.spec.get("precise"):
        vals = [RV(a, st, cx) for a in args]
        st.reqs.append("ReqCall \"%s\" [%s]" % (name, "; ".join(arg_text(v) for v in vals)))
        k = st.nres
        st.nres += 1
        invalidate(st, cx, None, [v[1] for v in vals if v[0] == "ptr"])
        return ("objv", ("res", k), ())
    if HELPERS.match(name) and cx.spec.get("precise"):
        vals = [RV(a, st, cx) for a in args]
        ev = "ReqCall \"%s\" [%s]" % (name, "; ".join(arg_text(v) for v in vals))
        at = len(st.reqs)
        if name.startswith("cbor_mark_") and vals:
            # the type mark and the payload setters write different fields of the item: a mark is listed
            # before the setters of the same item that it follows directly (set; mark = mark; set)
            head = "[%s" % arg_text(vals[0])
            while at > 0 and st.reqs[at - 1].startswith("ReqCall \"cbor_set_") and st.reqs[at - 1].split("\" ", 1)[1].startswith(head):
                at -= 1
        st.reqs.insert(at, ev)
        if vals and vals[0][0] == "ptr":
            keys = set(k for k in list(st.ints) + list(st.ptrs) + list(cx.spec["fields"]) if derives(k[0], vals[0][1]))
            invalidate(st, cx, keys)
        return ("void",)
    listed = LISTED_BY_NAME.get(name)
    rk = "void" if unconst(desugared(n)) == "void" else node_kind_of_type(n, cx)
    if rk == "ptr" and cx.spec.get("precise") and (name != cx.spec["name"] or cx.spec.get("ret") == "ptr") and (listed is not None or CONSTRUCTORS.match(name)):
        # a library constructor / pusher: an event with a NULL-or-not oracle, like an allocator call
        voc = vocabulary(cx.spec.get("group", "containers"))
        if listed is None and voc is not None and name not in voc:
            if thin_wrapper(name, cx):
                raise Unsupported("call of the wrapper %s inside an expression" % name)
            raise Unsupported("constructor %s: the plans of this group do not mention it and it is not a thin wrapper" % name)
        vals = [RV(a, st, cx) for a in args]
        k = st.nalloc
        if k >= cx.spec["oracles"]:
            raise Unsupported("more allocating calls on a path than declared")
        st.reqs.append("ReqCall \"%s\" [%s]" % (name, "; ".join(arg_text(v) for v in vals)))
        st.nalloc += 1
        if listed is not None:
            footprint(listed, vals, st, cx)
        return ("ptr", ("new", k), ())
    if listed is not None and (name != cx.spec["name"] or cx.spec.get("precise")):
        vals = [RV(a, st, cx) for a in args]
        if rk not in ("int", "void"):
            raise Unsupported("opaque call returning a pointer")
        st.reqs.append("ReqCall \"%s\" [%s]" % (name, "; ".join(arg_text(v) for v in vals)))
        res = ("void",)
        if rk == "int":
            k = st.ncall
            if k >= cx.spec.get("calls", 0):
                raise Unsupported("more opaque calls on a path than declared")
            st.ncall += 1
            cx.max_call = max(cx.max_call, st.ncall)
            res = ("int", "c_%d" % k)
        elif not cx.spec.get("precise"):
            k = st.ncall
            if k >= cx.spec.get("calls", 0):
                raise Unsupported("more opaque calls on a path than declared")
            st.ncall += 1
        if name == cx.spec["name"] and listed.get("writes") is None:
            invalidate(st, cx, None, None)       # the recursive call: anything may have changed
        else:
            footprint(listed, vals, st, cx)
        return res
    fn = cx.function(name)
    if fn is not None and name != cx.spec["name"]:
        return inline(fn, args, st, cx)
    raise Unsupported("call of " + name)

def inline(fn, args, st, cx):
    """a small accessor / setter defined in the library (cbor_array_is_definite, cbor_map_handle,
       _cbor_stack_init, ...): evaluated in place; only straight-line bodies"""
    decl, body = fn
    if cx.depth >= 4:
        raise Unsupported("inlining depth")
    params = [p for p in decl.get("inner", []) if p.get("kind") == "ParmVarDecl"]
    if len(params) != len(args):
        raise Unsupported("inlined call arity")
    vals = [RV(a, st, cx) for a in args]
    for p, v in zip(params, vals):
        if v[0] == "int":
            v = ("int", let_int(st, cx, "v_" + str(p.get("name")), v[1]))
        st.env[p.get("id")] = v
    cx.depth += 1
    try:
        for s in body.get("inner", []):
            k = s.get("kind")
            if k in ("NullStmt", "FullComment", "ParagraphComment"):
                continue
            if k == "DeclStmt":
                decl_stmt(s, st, cx)
                continue
            if k == "ReturnStmt":
                if not s.get("inner"):
                    return ("void",)
                return RV(s["inner"][0], st, cx)
            if k in ("BinaryOperator", "CompoundAssignOperator", "UnaryOperator", "CallExpr") and cx.spec.get("precise"):
                RV(s, st, cx)
                continue
            raise Unsupported("inlined body of %s: statement %s" % (decl.get("name"), k))
        return ("void",)
    finally:
        cx.depth -= 1

# ------------------------------------------------------------------------------------------
# statements (continuation-passing: `rest` is the list of statements that follow)

def struct_local(d, cx):
    """token of a local variable of struct type: named by its type, so that renaming or reordering
       declarations changes nothing (two locals of one struct type are outside the subset)"""
    t = unconst(desugared(d))
    if t.startswith("struct ") and not t.endswith("*"):
        return ("local", t)
    return None

def decl_stmt(s, st, cx):
    for d in s.get("inner", []):
        if d.get("kind") != "VarDecl":
            raise Unsupported("declaration")
        init = [x for x in d.get("inner", []) if x.get("kind") not in ("FullComment",) and not x.get("kind", "").endswith("Attr")]
        tok = struct_local(d, cx)
        if tok is not None and cx.spec.get("precise"):
            cur = st.env.get(d.get("id"))
            if cur != ("objv", tok, ()):
                raise Unsupported("local of struct type")
            if init and d.get("storageClass") != "static":
                v = RV(init[-1], st, cx)
                if v[0] == "init":
                    write_init(tok, (), v[1], st, cx)
                elif v[0] == "objv" and v[1][0] == "res":
                    st.copies[(tok, ())] = (v[1], v[2])
                else:
                    raise Unsupported("initialiser of a struct local")
            continue
        if d.get("storageClass") == "static" and tok is None:
            # AUDIT2: a static scalar keeps its value between calls; it was rendered as a local re-initialised on every call
            raise Unsupported("static local " + str(d.get("name")))
        if not init:
            st.env[d.get("id")] = ("uninit",)
            continue
        v = RV(init[-1], st, cx)
        if v[0] == "int":
            v = ("int", let_int(st, cx, "v_" + str(d.get("name")), v[1]))
        elif v[0] not in ("ptr",) and not (cx.spec.get("precise") and v[0] in ("ptroff", "eptr", "opqv")):
            raise Unsupported("local of struct type")
        st.env[d.get("id")] = v

def flush(st):
    out = "".join(l + "\n  " for l in st.lets)
    st.lets = []
    return out

def has_kind(n, kinds):
    if isinstance(n, dict):
        if n.get("kind") in kinds:
            return True
        return any(has_kind(c, kinds) for c in n.get("inner", []))
    return False

def is_macro_do(s):
    body, cond = s["inner"]
    c = cast.strip(cond)
    return c.get("kind") == "IntegerLiteral" and int(c["value"]) == 0 and not has_kind(body, ("BreakStmt", "ContinueStmt"))

def switch_groups(body, st, cx):
    """[(labels, statements)] of a switch body; a label is ('case', value text) or ('default',)"""
    groups = []
    for x in body.get("inner", []):
        if x.get("kind") in ("CaseStmt", "DefaultStmt"):
            labels = []
            while x.get("kind") in ("CaseStmt", "DefaultStmt"):
                if x["kind"] == "CaseStmt":
                    if len(x.get("inner", [])) != 2:
                        raise Unsupported("case range")      # AUDIT2: `case lo ... hi:` (only lo was read)
                    v = RV(x["inner"][0], st, cx)
                    if v[0] != "int":
                        raise Unsupported("case label")
                    labels.append(("case", v[1]))
                else:
                    labels.append(("default",))
                x = x["inner"][-1]
            groups.append((labels, [x]))
        elif x.get("kind") in ("NullStmt", "FullComment"):
            continue
        else:
            if not groups:
                raise Unsupported("statement before the first case label")
            groups[-1][1].append(x)
    return groups

def simple_body(body):
    return not has_kind(body, ("IfStmt", "SwitchStmt", "WhileStmt", "DoStmt", "ForStmt", "GotoStmt", "ConditionalOperator#")) \
        and sum(1 for _ in (n for n in all_nodes(body) if n.get("kind") == "ReturnStmt")) <= 1

HAND_PLANS = {"load": "HPlansLoad.v", "ser": "HPlansSer.v", "ref": "HPlansRef.v", "copy": "HPlansCopy.v"}
_VOCABULARY = {}

def vocabulary(group):
    """the constructors (cbor_new_* / cbor_build_*) the hand-written plans of the group mention: a call of
       one of them is an event of the plan.  None: the plan file is not there, every constructor is an event"""
    if group not in _VOCABULARY:
        path = os.path.join(os.path.dirname(os.path.abspath(__file__)), "..", "coq", "theories", HAND_PLANS.get(group, "?"))
        try:
            _VOCABULARY[group] = set(_re.findall(r'"(cbor_(?:new|build)_[a-z0-9_]+)"', open(path).read()))
        except OSError:
            _VOCABULARY[group] = None
    return _VOCABULARY[group]

def callee_name(n):
    f = cast.strip(n["inner"][0]) if n.get("kind") == "CallExpr" and n.get("inner") else {}
    return f["referencedDecl"].get("name") if f.get("kind") == "DeclRefExpr" else None

def thin_wrapper(name, cx):
    """a constructor of the library that the plans of the group do not mention and whose CURRENT body only
       calls other constructors and the setters (cbor_build_float2 = cbor_new_float2 + NULL test +
       cbor_set_float2): it is not an event, it is inlined, so that its callers may use it or spell it out"""
    if not cx.spec.get("precise") or not CONSTRUCTORS.match(name) or name in LISTED or name == cx.spec["name"]:
        return None
    voc = vocabulary(cx.spec.get("group", "containers"))
    if voc is None or name in voc:
        return None
    fn = cx.function(name)
    if fn is None:
        return None
    body = fn[1]
    if has_kind(body, ("WhileStmt", "ForStmt", "GotoStmt", "SwitchStmt", "MemberExpr", "ArraySubscriptExpr")):
        return None
    for n_ in all_nodes(body):
        k = n_.get("kind")
        if k == "DoStmt" and not is_macro_do(n_):
            return None
        if k == "UnaryOperator" and n_.get("opcode") in ("*", "&", "++", "--"):
            return None
        if k == "CallExpr":
            c = callee_name(n_)
            if c is None or not (CONSTRUCTORS.match(c) or HELPERS.match(c)):
                return None
    return fn

def hoist_wrappers(s, cx):
    """`f(a, g(b));` / `x = f(a, g(b));` / `return f(a, g(b));` with g a thin wrapper: `T t = g(b);` first"""
    k = s.get("kind")
    holder, callnode = None, None
    if k == "CallExpr":
        callnode = s
    elif k == "ReturnStmt" and s.get("inner"):
        callnode = cast.strip(s["inner"][0])
    elif k == "BinaryOperator" and s.get("opcode") == "=":
        callnode = cast.strip(s["inner"][1])
    elif k == "DeclStmt" and len(s.get("inner", [])) == 1 and s["inner"][0].get("kind") == "VarDecl" and s["inner"][0].get("inner"):
        callnode = cast.strip(s["inner"][0]["inner"][-1])
    if callnode is None or callnode.get("kind") != "CallExpr":
        return None
    args = callnode["inner"][1:]
    picks = [i for i, a in enumerate(args) if cast.strip(a).get("kind") == "CallExpr"
             and callee_name(cast.strip(a)) and thin_wrapper(callee_name(cast.strip(a)), cx)]
    if not picks:
        return None
    for i, a in enumerate(args):
        if i not in picks and has_kind(a, ("CallExpr", "CompoundAssignOperator")):
            return None                     # the order of the other calls would change
        if i not in picks and any(n_.get("kind") == "BinaryOperator" and n_.get("opcode") == "=" or
                                  n_.get("kind") == "UnaryOperator" and n_.get("opcode") in ("++", "--") for n_ in all_nodes(a)):
            return None
    pre, newargs = [], list(args)
    for i in picks:
        cx.n += 1
        g = cast.strip(args[i])
        did, nm = "hoisted_%d" % cx.n, "hoisted_%d" % cx.n
        pre.append({"kind": "DeclStmt", "inner": [{"kind": "VarDecl", "id": did, "name": nm, "type": g.get("type"), "inner": [g]}]})
        newargs[i] = {"kind": "ImplicitCastExpr", "castKind": "LValueToRValue", "type": g.get("type"), "valueCategory": "prvalue",
                      "inner": [{"kind": "DeclRefExpr", "type": g.get("type"), "valueCategory": "lvalue",
                                 "referencedDecl": {"id": did, "kind": "VarDecl", "name": nm, "type": g.get("type")}}]}
    newcall = dict(callnode)
    newcall["inner"] = [callnode["inner"][0]] + newargs
    def swap(n):
        if n is callnode:
            return newcall
        if isinstance(n, dict) and "inner" in n:
            m = dict(n)
            m["inner"] = [swap(c) for c in n["inner"]]
            return m
        return n
    return pre + [swap(s)]

def inlinable_with_control(name, cx):
    """a helper of the library (typically file-static) that is neither listed nor summarised, whose body
       branches: it is inlined in continuation-passing style at statement level"""
    if name in LISTED or name in ALLOC or name in REFCOUNT or name in PURE_LEAF or name in STRUCT_CALLS \
       or name in ("_cbor_free", "cbor_decref", "memcpy", "__builtin_unreachable") \
       or HELPERS.match(name) or CONSTRUCTORS.match(name) or ENCODERS.match(name) or FLOAT_GETTERS.match(name) \
       or name in cx.spec.get("getters", {}):
        return thin_wrapper(name, cx)
    fn = cx.function(name)
    if fn is None or simple_body(fn[1]):
        return None
    return fn

def strip_noconv(n):
    """AUDIT2: cast.strip, but a value-changing conversion at the call site (`return (uint8_t)helper(..);`, an implicit narrowing
    or int -> bool conversion of the helper's result) is kept: the node returned is then not a CallExpr and the helper is not inlined"""
    while n.get("kind") in cast.TRANSPARENT and n.get("inner"):
        if n.get("kind") in ("ImplicitCastExpr", "CStyleCastExpr") and n.get("castKind") not in ("LValueToRValue", "NoOp", "BitCast", "FunctionToPointerDecay"):
            inner = n["inner"][-1]
            to, frm = unconst(desugared(n)), unconst(desugared(inner))
            if to != frm:
                return n
        n = n["inner"][-1]
    return n

def cps_inline(s, rest, st, cx):
    """`return f(..);`, `T x = f(..);`, `x = f(..);`, `f(..);` with f a branching helper"""
    k = s.get("kind")
    target, callnode = None, None
    if k == "ReturnStmt" and s.get("inner"):
        callnode, target = strip_noconv(s["inner"][0]), ("return",)
    elif k == "DeclStmt" and len(s.get("inner", [])) == 1 and s["inner"][0].get("kind") == "VarDecl":
        d = s["inner"][0]
        init = [x for x in d.get("inner", []) if x.get("kind") not in ("FullComment",) and not x.get("kind", "").endswith("Attr")]
        if init:
            callnode, target = strip_noconv(init[-1]), ("var", d.get("id"), d.get("name"))
    elif k == "BinaryOperator" and s.get("opcode") == "=":
        l = cast.strip(s["inner"][0])
        if l.get("kind") == "DeclRefExpr" and l["referencedDecl"].get("id") in st.env and st.env[l["referencedDecl"]["id"]][0] != "objv":
            callnode, target = strip_noconv(s["inner"][1]), ("var", l["referencedDecl"]["id"], l["referencedDecl"].get("name"))
    elif k == "CallExpr":
        callnode, target = s, ("drop",)
    if callnode is None or callnode.get("kind") != "CallExpr":
        return None
    f = cast.strip(callnode["inner"][0])
    if f.get("kind") != "DeclRefExpr" or f["referencedDecl"].get("name") == cx.spec["name"]:
        return None
    fn = inlinable_with_control(f["referencedDecl"]["name"], cx)
    if fn is None:
        return None
    decl, body = fn
    if cx.depth >= 4:
        raise Unsupported("inlining depth")
    params = [p for p in decl.get("inner", []) if p.get("kind") == "ParmVarDecl"]
    args = callnode["inner"][1:]
    if len(params) != len(args):
        raise Unsupported("inlined call arity")
    vals = [RV(a, st, cx) for a in args]
    for p_, v in zip(params, vals):
        if v[0] == "int":
            v = ("int", let_int(st, cx, "v_" + str(p_.get("name")), v[1]))
        elif v[0] not in ("ptr", "eptr", "ptroff", "opq", "opqv"):
            raise Unsupported("argument of an inlined call")
        st.env[p_.get("id")] = v
    for n_ in all_nodes(body):
        if n_.get("kind") in ("WhileStmt", "DoStmt", "ForStmt") and not (n_.get("kind") == "DoStmt" and is_macro_do(n_)):
            raise Unsupported("loop inside an inlined helper")
        if n_.get("kind") == "VarDecl" and n_.get("id") not in st.env:
            st.env[n_.get("id")] = ("uninit",)
    cx.depth += 1
    try:
        return flush(st) + S([x for x in body.get("inner", [])] + [{"kind": "#EndInline", "target": target}] + rest, st, cx)
    finally:
        cx.depth -= 1

def S(stmts, st, cx):
    if not stmts:
        if cx.spec["ret"] != "void":
            raise Unsupported("control reaches the end of a non-void function")
        return flush(st) + plan_text(("void",), st, cx)
    s, rest = stmts[0], stmts[1:]
    k = s.get("kind")
    if k in ("ParagraphComment", "FullComment", "NullStmt", "#EndSwitch"):
        return S(rest, st, cx)
    if k == "CompoundStmt":
        return S([x for x in s.get("inner", [])] + rest, st, cx)
    if cx.spec.get("precise") and k in ("ReturnStmt", "DeclStmt", "BinaryOperator", "CallExpr"):
        h = hoist_wrappers(s, cx)
        if h is not None:
            return S(h + rest, st, cx)
        r = cps_inline(s, rest, st, cx)
        if r is not None:
            return r
    if k == "ReturnStmt":
        v = RV(s["inner"][0], st, cx) if s.get("inner") else ("void",)
        for i, x in enumerate(rest):
            if x.get("kind") == "#EndInline":        # the return of an inlined callee
                tgt = x["target"]
                if tgt[0] == "return":
                    return flush(st) + plan_text(v, st, cx)
                if tgt[0] == "var":
                    if v[0] == "int":
                        v = ("int", let_int(st, cx, "v_" + str(tgt[2]), v[1]))
                    elif v[0] not in ("ptr", "eptr"):
                        raise Unsupported("value returned by an inlined function")
                    st.env[tgt[1]] = v
                return flush(st) + S(rest[i + 1:], st, cx)
        return flush(st) + plan_text(v, st, cx)
    if k == "DeclStmt":
        decl_stmt(s, st, cx)
        return flush(st) + S(rest, st, cx)
    if k == "IfStmt":
        inner = [x for x in s["inner"]]
        c = truth(RV(inner[0], st, cx), st, cx)
        pre = flush(st)
        then = inner[1]
        els = inner[2] if len(inner) > 2 else None
        st2 = st.clone()
        t = S([then] + rest, st, cx)
        e = S(([els] if els else []) + rest, st2, cx)
        return pre + "(if %s then\n  %s\n  else\n  %s)" % (c, t, e)
    if k == "DoStmt" and is_macro_do(s):
        return S([s["inner"][0]] + rest, st, cx)
    if k == "ForStmt" and not (cx.spec.get("precise") and s.get("id") in cx.loops):
        fill_loop(s, st, cx)
        return flush(st) + S(rest, st, cx)
    if not cx.spec.get("precise"):
        if k in ("DoStmt", "WhileStmt", "SwitchStmt", "GotoStmt", "LabelStmt", "BreakStmt", "ContinueStmt"):
            raise Unsupported("do-while loop" if k == "DoStmt" else "statement " + k)
        RV(s, st, cx)
        return flush(st) + S(rest, st, cx)
    # ---- the decoder glue: switch / break, forward goto, loops as segments
    if k in ("DoStmt", "WhileStmt", "ForStmt"):
        idx = cx.loops.get(s.get("id"))
        if idx is None:
            raise Unsupported("loop")
        if k == "ForStmt":
            init = s["inner"][0]
            if init.get("kind") == "DeclStmt":
                decl_stmt(init, st, cx)
            elif init.get("kind"):
                RV(init, st, cx)
        if idx not in cx.loop_rest:
            cx.loop_rest[idx] = (s, rest)
        return flush(st) + plan_text(("loop", idx, "arrive"), st, cx)    # control arrives at the head of loop idx
    if k == "#EndInline":
        if s["target"][0] != "drop":
            raise Unsupported("control reaches the end of an inlined non-void function")
        return S(rest, st, cx)

    if k == "#DoTest":
        c = truth(RV(s["cond"], st, cx), st, cx)
        pre = flush(st)
        st2 = st.clone()
        t = plan_text(("loop", s["loop"], "back"), st, cx)
        e = S(rest, st2, cx)
        return pre + "(if %s then\n  %s\n  else\n  %s)" % (c, t, e)
    if k == "#WhileHead":
        c = truth(RV(s["cond"], st, cx), st, cx)
        pre = flush(st)
        st2 = st.clone()
        t = S([s["body"], {"kind": "#LoopBack", "loop": s["loop"]}], st, cx)
        e = S(rest, st2, cx)
        return pre + "(if %s then\n  %s\n  else\n  %s)" % (c, t, e)
    if k == "#LoopBack":
        return flush(st) + plan_text(("loop", s["loop"], "back"), st, cx)
    if k == "SwitchStmt":
        inner = [x for x in s["inner"]]
        v = RV(inner[0], st, cx)
        if v[0] != "int":
            raise Unsupported("switch on a non-integer")
        sel = let_int(st, cx, "v_switch", v[1])
        groups = switch_groups(inner[-1], st, cx)
        pre = flush(st)
        end = {"kind": "#EndSwitch"}
        def chain(i):
            out = []
            for _, body in groups[i:]:
                out += body
            return out + [end] + rest
        default = None
        arms = []
        for i, (labels, _) in enumerate(groups):
            vals = [l[1] for l in labels if l[0] == "case"]
            if any(l[0] == "default" for l in labels):
                default = i
            if vals:
                arms.append((vals, i))
        txt = S(chain(default), st.clone(), cx) if default is not None else S(rest, st.clone(), cx)
        for vals, i in reversed(arms):
            c = " || ".join("(%s =? %s)" % (sel, x) for x in vals)
            txt = "(if (%s) then\n  %s\n  else\n  %s)" % (c, S(chain(i), st.clone(), cx), txt)
        return pre + txt
    if k == "BreakStmt":
        for i, x in enumerate(rest):
            if x.get("kind") == "#EndSwitch":
                return S(rest[i + 1:], st, cx)
            if x.get("kind") in ("#DoTest", "#LoopBack"):
                break
        raise Unsupported("break out of a loop")
    if k == "ContinueStmt":
        raise Unsupported("statement ContinueStmt")
    if k == "LabelStmt":
        return S([s["inner"][-1]] + rest, st, cx)
    if k == "GotoStmt":
        target = cx.labels.get(s.get("targetLabelDeclId"))
        if target is None:
            raise Unsupported("goto")
        return S(list(target), st, cx)
    # expression statement
    RV(s, st, cx)
    return flush(st) + S(rest, st, cx)

def bare_ref(n):
    """AUDIT2: the variable an expression IS (through parentheses and lvalue-to-rvalue only).  cast.strip also drops value-changing
    casts: `(uint8_t)i < size` passed as the loop test `i < size` of the NULL-fill loop"""
    while n.get("kind") == "ParenExpr" or (n.get("kind") == "ImplicitCastExpr" and n.get("castKind") in ("LValueToRValue", "NoOp")):
        n = n["inner"][-1]
    return n

def is_fill_loop(s):
    """syntactic shape of `for (T i = 0; i < n; i++) p[i] = NULL;`"""
    inner = s.get("inner", [])
    if len(inner) != 5:
        return False
    init, _, cond, inc, body = inner
    try:
        d = init["inner"][0]
        ivar = d["id"]
        zero = cast.expr([x for x in d["inner"] if x.get("kind") != "FullComment"][-1])
        c = cast.strip(cond)
        ci = bare_ref(c["inner"][0])        # AUDIT2
        i2 = cast.strip(inc)
        stmts = body.get("inner", []) if body.get("kind") == "CompoundStmt" else [body]
        stmts = [x for x in stmts if x.get("kind") != "NullStmt"]
        if not (init.get("kind") == "DeclStmt" and zero == ("int", 0) and c.get("kind") == "BinaryOperator" and c.get("opcode") == "<"
                and ci.get("kind") == "DeclRefExpr" and ci["referencedDecl"]["id"] == ivar
                and i2.get("kind") == "UnaryOperator" and i2.get("opcode") == "++" and bare_ref(i2["inner"][0])["referencedDecl"]["id"] == ivar
                and len(stmts) == 1 and stmts[0].get("kind") == "BinaryOperator" and stmts[0].get("opcode") == "="):
            return False
        lhs, rhs = stmts[0]["inner"]
        l = cast.strip(lhs)
        if l.get("kind") != "ArraySubscriptExpr" or bare_ref(l["inner"][1]).get("referencedDecl", {}).get("id") != ivar:
            return False
        return cast.strip(rhs).get("kind") == "IntegerLiteral" or has_kind(rhs, ("IntegerLiteral",)) and not has_kind(rhs, ("CallExpr", "DeclRefExpr"))
    except (KeyError, IndexError, TypeError):
        return False

def fill_loop(s, st, cx):
    """for (T i = 0; i < n; i++) p[i] = NULL;  ->  one summarised effect `Fill p n PNull`"""
    inner = s.get("inner", [])
    if len(inner) != 5:
        raise Unsupported("for loop")
    init, _, cond, inc, body = inner
    try:
        d = init["inner"][0]
        ivar = d["id"]
        zero = cast.expr([x for x in d["inner"] if x.get("kind") != "FullComment"][-1])
        c = cast.strip(cond)
        ci = bare_ref(c["inner"][0])        # AUDIT2
        i2 = cast.strip(inc)
        stmts = body.get("inner", []) if body.get("kind") == "CompoundStmt" else [body]
        stmts = [x for x in stmts if x.get("kind") != "NullStmt"]
        ok = (init.get("kind") == "DeclStmt" and zero == ("int", 0) and c.get("kind") == "BinaryOperator" and c.get("opcode") == "<"
              and ci.get("kind") == "DeclRefExpr" and ci["referencedDecl"]["id"] == ivar
              and i2.get("kind") == "UnaryOperator" and i2.get("opcode") == "++" and bare_ref(i2["inner"][0])["referencedDecl"]["id"] == ivar
              and len(stmts) == 1 and stmts[0].get("kind") == "BinaryOperator" and stmts[0].get("opcode") == "=")
        if not ok:
            raise Unsupported("for loop")
        lhs, rhs = stmts[0]["inner"]
        l = cast.strip(lhs)
        if l.get("kind") != "ArraySubscriptExpr" or bare_ref(l["inner"][1]).get("referencedDecl", {}).get("id") != ivar:
            raise Unsupported("for loop")
    except (KeyError, IndexError, TypeError):
        raise Unsupported("for loop")
    bound = RV(c["inner"][1], st, cx)
    p = RV(l["inner"][0], st, cx)
    v = RV(rhs, st, cx)
    if bound[0] != "int" or p[0] != "ptr" or p[2] != () or v[0] != "ptr" or v[1] != NULL:
        raise Unsupported("for loop")
    st.stored.add(p[1])
    st.effs.append(((EFF_RANK["Fill"], tok_key(p[1])), "Fill %s %s PNull" % (tok_text(p[1]), bound[1]), p[1]))

def plan_text(v, st, cx):
    want = cx.spec["ret"]
    loop_extra = []
    if v[0] == "loop":
        r = "(RLoop %d)" % v[1]
        info = cx.loopinfo.get(v[1])
        if info is not None:
            own = (cx.segment == v[1] and v[2] == "back")
            snap = {}
            for sid in cx.scalars:
                if sid in st.env and st.env[sid][0] in ("int", "ptr", "eptr"):
                    snap[sid] = expand_val(st, st.env[sid])
            if cx.phase == "A":
                (info["backs"] if own else info["arrivals"]).append(snap)
            elif info["assigned"]:
                for j, sid in enumerate(info["accs"]):
                    val = st.env.get(sid)
                    if val is None or val[0] != "int":
                        raise Unsupported("loop accumulator without a value at the loop head")
                    loop_extra.append("(\"acc%d\", %s)" % (j, val[1]))
                loop_extra.append("(\"round\", %s)" % ("(v_k + 1)" if own else "0"))
                for j, sid in enumerate(cx.carried(info)):
                    val = st.env.get(sid)
                    if val is None or val[0] != "ptr" or val[2] != ():
                        raise Unsupported("carried pointer without a value at the loop head")
                    st.effs.append(((EFF_RANK["Carry"], j), "Carry %d %s" % (j, tok_text(val[1])), None))
    elif v[0] == "void":
        if want != "void":
            raise Unsupported("return without a value")
        r = "RVoid"
    elif v[0] == "int":
        if want != "int":
            raise Unsupported("integer returned from a %s function" % want)
        r = "(RZ %s)" % v[1]
    elif v[0] == "ptr" and v[2] == ():
        if want != "ptr":
            raise Unsupported("pointer returned from a %s function" % want)
        r = "(RP %s)" % tok_text(v[1])
    else:
        raise Unsupported("return value")
    fields = []
    declared = cx.spec["fields"]
    for key, nm in sorted(declared.items(), key=lambda kv: kv[1]):
        if key[0][0] == "res":
            continue                 # a field of a call result is an input (an oracle), never an output
        if key in st.ints:
            val = st.ints[key]
        elif cx.spec.get("readonly"):
            continue                 # a function over a const item: only what it writes is reported
        elif is_invalid(key, st, cx) or reach_invalid(key, st):
            continue                 # unknown after an opaque call: not reported
        else:
            val = "f_" + nm
        fields.append("(\"%s\", %s)" % (nm, val))
    freed = set()
    for k in range(st.nalloc):
        if ("ReqFree %s" % tok_text(("new", k))) in st.reqs:
            freed.add(("new", k))
    effs = [e for e in st.effs if not (e[0][0] in (EFF_RANK["Store"], EFF_RANK["Fill"], EFF_RANK["Copy"]) and e[2] in freed)]
    for (tok, path), pv in st.ptrs.items():
        if tok in freed:
            continue
        effs.append(((EFF_RANK["SetPtr"], tok_key(tok), path_text(path), tok_key(pv[1])),
                     "SetPtr %s \"%s\" %s" % (tok_text(tok), path_text(path), tok_text(pv[1]))))
    for (tok, path), val in st.ints.items():
        if (tok, path) not in declared and tok not in freed:
            effs.append(((EFF_RANK["SetInt"], tok_key(tok), path_text(path)),
                         "SetInt %s \"%s\" %s" % (tok_text(tok), path_text(path), val)))
    effs = [(e[0], e[1]) for e in effs]
    effs.sort(key=lambda e: e[0])
    fields += loop_extra
    return "(mkplan %s\n    [%s]\n    [%s]\n    [%s])" % (r, "; ".join(fields), "; ".join(st.reqs), "; ".join(e[1] for e in effs))

# ------------------------------------------------------------------------------------------
# the functions

def loc(s):
    """'0->metadata.end_ptr' / '0->data->chunk_count' / 'L(struct _cbor_stack)->size' / 'R0->status'
       -> (token, path)"""
    parts = s.split("->")
    root = parts[0]
    if root.startswith("L(") and root.endswith(")"):
        tok = ("local", root[2:-1])
    elif root.startswith("R"):
        tok = ("res", int(root[1:]))
    else:
        tok = ("arg", int(root))
    for mid in parts[1:-1]:
        tok = ("field", tok, mid)
    if parts[-1] == "*":
        return (tok, ())             # the object an out-parameter points at
    return (tok, tuple(parts[-1].split(".")))

def F(rel, name, params, fields=None, oracles=0, calls=0, ret="int", writes=None, group="containers",
      post=None, loops=0, **kw):
    d = {"rel": rel, "name": name, "params": params, "oracles": oracles, "calls": calls, "ret": ret,
         "fields": {loc(k): v for k, v in (fields or {}).items()},
         "writes": None if writes is None else [loc(w) for w in writes], "group": group, "loops": loops}
    if group != "containers":
        d["precise"] = True
        d["ordered_decref"] = True
        d["post"] = {loc(k): v for k, v in (post or {}).items()}
    d.update(kw)
    return d

ARR = {"0->metadata.type": "dst", "0->metadata.end_ptr": "end_ptr", "0->metadata.allocated": "allocated"}
CHK = {"0->data->chunk_count": "chunk_count", "0->data->chunk_capacity": "chunk_capacity"}
W_ARR = ["0->metadata.end_ptr", "0->metadata.allocated", "0->data"]     # what an append may write
W_CHK = ["0->data->chunk_count", "0->data->chunk_capacity", "0->data->chunks"]
W_STK = ["0->size", "0->top"]

# the decoder glue (group "load"): builder_callbacks.c and cbor_load
CTX = "0"     # the context parameter of a callback
def ctx_fields(c, top=True, flags=("creation_failed", "syntax_error")):
    d = {c + "->stack->size": "size"}
    for f_ in flags:
        d[c + "->" + f_] = f_
    if top:
        d[c + "->stack->top->subitems"] = "subitems"
        d[c + "->stack->top->item->type"] = "top_type"
        d[c + "->stack->top->item->metadata.type"] = "top_dst"
    return d
LEAF = dict(fields=ctx_fields("0", top=False, flags=("creation_failed",)), oracles=1, ret="void", group="load")
def leaf_cb(name, kinds):
    return F("cbor/internal/builder_callbacks.c", name, kinds, **LEAF)
STACK_T = "L(struct _cbor_stack)"
CTX_T = "L(struct _cbor_decoder_context)"

FUNCTIONS = [
    F("cbor/arrays.c", "cbor_array_push", ["ptr", "ptr"], ARR, oracles=1, writes=W_ARR),
    F("cbor/arrays.c", "cbor_array_get", ["ptr", "int"], ARR, ret="ptr", writes=[]),
    F("cbor/arrays.c", "cbor_array_replace", ["ptr", "int", "ptr"], ARR, writes=[]),
    F("cbor/arrays.c", "cbor_array_set", ["ptr", "int", "ptr"], ARR, calls=1, writes=W_ARR),
    F("cbor/arrays.c", "cbor_new_definite_array", ["int"], {}, oracles=2, ret="ptr", writes=[]),
    F("cbor/arrays.c", "cbor_new_indefinite_array", [], {}, oracles=1, ret="ptr", writes=[]),
    F("cbor/maps.c", "_cbor_map_add_key", ["ptr", "ptr"], ARR, oracles=1, writes=W_ARR),
    F("cbor/maps.c", "_cbor_map_add_value", ["ptr", "ptr"], ARR, writes=[]),
    F("cbor/maps.c", "cbor_map_add", ["ptr", "obj"], {}, calls=2, writes=W_ARR),
    F("cbor/maps.c", "cbor_new_definite_map", ["int"], {}, oracles=2, ret="ptr", writes=[]),
    F("cbor/bytestrings.c", "cbor_bytestring_add_chunk", ["ptr", "ptr"], CHK, oracles=1, writes=W_CHK),
    F("cbor/strings.c", "cbor_string_add_chunk", ["ptr", "ptr"], CHK, oracles=1, writes=W_CHK),
    F("cbor/tags.c", "cbor_new_tag", ["int"], {}, oracles=1, ret="ptr", writes=[]),
    F("cbor/tags.c", "cbor_tag_set_item", ["ptr", "ptr"], {}, ret="void", writes=["0->metadata.tagged_item"]),
    F("cbor/tags.c", "cbor_tag_item", ["ptr"], {}, ret="ptr", writes=[]),
    F("cbor/common.c", "cbor_incref", ["ptr"], {"0->refcount": "refcount"}, ret="ptr", writes=["0->refcount"]),
    F("cbor/common.c", "cbor_move", ["ptr"], {"0->refcount": "refcount"}, ret="ptr", writes=["0->refcount"]),
    F("cbor/internal/stack.c", "_cbor_stack_push", ["ptr", "ptr", "int"], {"0->size": "size"}, oracles=1, ret="ptr", writes=W_STK),
    F("cbor/internal/stack.c", "_cbor_stack_pop", ["ptr"], {"0->size": "size"}, ret="void", writes=W_STK),
    # ---- decoder glue
    F("cbor/internal/builder_callbacks.c", "_cbor_builder_append", ["ptr", "ptr"], ctx_fields("1"), calls=1, ret="void",
      group="load"),
    F("cbor/internal/builder_callbacks.c", "_cbor_is_indefinite", ["ptr"], {"0->type": "type", "0->metadata.type": "dst"},
      group="load", writes=[]),
    F("cbor/internal/builder_callbacks.c", "cbor_builder_indef_break_callback", ["ptr"],
      ctx_fields("0", flags=("syntax_error",)), calls=1, ret="void", group="load"),
    F("cbor/internal/builder_callbacks.c", "cbor_builder_byte_string_callback", ["ptr", "ptr", "int"],
      ctx_fields("0", flags=("creation_failed",)), oracles=2, calls=1, ret="void", group="load"),
    F("cbor/internal/builder_callbacks.c", "cbor_builder_string_callback", ["ptr", "ptr", "int"],
      ctx_fields("0", flags=("creation_failed",)), oracles=2, calls=1, ret="void", group="load"),
    F("cbor/internal/builder_callbacks.c", "cbor_builder_array_start_callback", ["ptr", "int"],
      ctx_fields("0", top=False, flags=("creation_failed",)), oracles=2, ret="void", group="load"),
    F("cbor/internal/builder_callbacks.c", "cbor_builder_map_start_callback", ["ptr", "int"],
      ctx_fields("0", top=False, flags=("creation_failed",)), oracles=2, ret="void", group="load"),
    F("cbor/internal/builder_callbacks.c", "cbor_builder_indef_array_start_callback", ["ptr"],
      ctx_fields("0", top=False, flags=("creation_failed",)), oracles=2, ret="void", group="load"),
    F("cbor/internal/builder_callbacks.c", "cbor_builder_indef_map_start_callback", ["ptr"],
      ctx_fields("0", top=False, flags=("creation_failed",)), oracles=2, ret="void", group="load"),
    F("cbor/internal/builder_callbacks.c", "cbor_builder_byte_string_start_callback", ["ptr"],
      ctx_fields("0", top=False, flags=("creation_failed",)), oracles=2, ret="void", group="load"),
    F("cbor/internal/builder_callbacks.c", "cbor_builder_string_start_callback", ["ptr"],
      ctx_fields("0", top=False, flags=("creation_failed",)), oracles=2, ret="void", group="load"),
    F("cbor/internal/builder_callbacks.c", "cbor_builder_tag_callback", ["ptr", "int"],
      ctx_fields("0", top=False, flags=("creation_failed",)), oracles=2, ret="void", group="load"),
    leaf_cb("cbor_builder_uint8_callback", ["ptr", "int"]), leaf_cb("cbor_builder_uint16_callback", ["ptr", "int"]),
    leaf_cb("cbor_builder_uint32_callback", ["ptr", "int"]), leaf_cb("cbor_builder_uint64_callback", ["ptr", "int"]),
    leaf_cb("cbor_builder_negint8_callback", ["ptr", "int"]), leaf_cb("cbor_builder_negint16_callback", ["ptr", "int"]),
    leaf_cb("cbor_builder_negint32_callback", ["ptr", "int"]), leaf_cb("cbor_builder_negint64_callback", ["ptr", "int"]),
    leaf_cb("cbor_builder_float2_callback", ["ptr", "float"]), leaf_cb("cbor_builder_float4_callback", ["ptr", "float"]),
    leaf_cb("cbor_builder_float8_callback", ["ptr", "float"]),
    leaf_cb("cbor_builder_null_callback", ["ptr"]), leaf_cb("cbor_builder_undefined_callback", ["ptr"]),
    leaf_cb("cbor_builder_boolean_callback", ["ptr", "int"]),
    F("cbor.c", "cbor_load", ["ptr", "int", "ptr"],
      {"2->read": "read", "2->error.code": "code", "2->error.position": "position",
       "R0->status": "status", "R0->read": "dread",
       STACK_T + "->size": "size", CTX_T + "->creation_failed": "creation_failed", CTX_T + "->syntax_error": "syntax_error"},
      post={STACK_T + "->size": "size", CTX_T + "->creation_failed": "creation_failed", CTX_T + "->syntax_error": "syntax_error"},
      ret="ptr", group="load", loops=2),
]
# ---- serialization.c (group "ser"): calls of encoders / of each other are ordered events with an
# integer result oracle; loops are cut at their heads with the round number v_k and the running
# total a_0 as inputs
ITEM = {"0->type": "type", "0->metadata.width": "width", "0->metadata.length": "length", "0->metadata.type": "dst",
        "0->metadata.end_ptr": "end_ptr", "0->metadata.allocated": "allocated", "0->metadata.value": "value",
        "0->metadata.ctrl": "ctrl", "0->data->chunk_count": "chunk_count"}
def item_fields(*names):
    return {k: v for k, v in ITEM.items() if v in names}
GET_INT = {"cbor_get_uint8": "get8", "cbor_get_uint16": "get16", "cbor_get_uint32": "get32", "cbor_get_uint64": "get64"}
SER = "cbor/serialization.c"
def ser(name, fields, **kw):
    kw.setdefault("calls", 1)
    return F(SER, name, kw.pop("params", ["ptr", "ptr", "int"]), item_fields(*fields), group="ser", writes=[], readonly=True, **kw)
FUNCTIONS += [
    ser("cbor_serialize", ["type"]),
    ser("cbor_serialize_uint", ["width"], getters=GET_INT),
    ser("cbor_serialize_negint", ["width"], getters=GET_INT),
    ser("cbor_serialize_bytestring", ["dst", "length", "chunk_count"], loops=1, accs=1),
    ser("cbor_serialize_string", ["dst", "length", "chunk_count"], loops=1, accs=1),
    ser("cbor_serialize_array", ["dst", "end_ptr", "allocated"], loops=1, accs=1),
    ser("cbor_serialize_map", ["dst", "end_ptr", "allocated"], loops=1, accs=1, calls=2),
    ser("cbor_serialize_tag", ["value"], calls=2),
    ser("cbor_serialize_float_ctrl", ["width", "ctrl"]),
    ser("cbor_serialized_size", ["type", "width", "length", "dst", "end_ptr", "allocated", "value", "ctrl", "chunk_count"],
        params=["ptr"], getters={"cbor_get_uint8": "get8"}, loops=4, accs=1, calls=2),
    F(SER, "cbor_serialize_alloc", ["ptr", "ptr", "ptr"], {"2->*": "out_size"}, oracles=1, calls=2, group="ser",
      writes=["1->*", "2->*"], nullable=(2,), readonly=True),
]
# ---- reference counting (group "ref"): cbor_decref with its per-type release order
DEC = {"0->*->refcount": "refcount", "0->*->type": "type", "0->*->metadata.type": "dst",
       "0->*->metadata.end_ptr": "end_ptr", "0->*->data->chunk_count": "chunk_count"}
FUNCTIONS += [
    F("cbor/common.c", "cbor_decref", ["ptr"], DEC, ret="void", group="ref", loops=4, accs=0, readonly=True,
      nulltests={("slot", ""): "elem", ("slot", "value"): "value", ("field", "metadata.tagged_item"): "child"}),
]
# ---- cbor_copy (group "copy"): per-type constructor, one round per loop, the cleanup on failure
FUNCTIONS += [
    F("cbor.c", "cbor_copy", ["ptr"],
      item_fields("type", "width", "length", "dst", "end_ptr", "allocated", "value", "ctrl", "chunk_count"),
      ret="ptr", group="copy", loops=4, accs=0, oracles=3, calls=1, readonly=True, writes=[], getters=GET_INT),
]
LISTED = {f["name"] for f in FUNCTIONS}
LISTED_BY_NAME = {f["name"]: f for f in FUNCTIONS}
GROUPS = {"containers": "Gen_effects.v", "load": "Gen_effects_load.v", "ser": "Gen_effects_ser.v", "ref": "Gen_effects_ref.v",
          "copy": "Gen_effects_copy.v"}

def gname(name):
    return "G" + name

def signature(spec, pnames=None):
    """the Gallina binders of a generated plan function (fixed by the table, not by the body)"""
    b = []
    for _, nm in sorted(spec["fields"].items(), key=lambda kv: kv[1]):
        b.append("(f_%s : Z)" % nm)
    for _, nm in sorted(spec.get("post", {}).items(), key=lambda kv: kv[1]):
        b.append("(g_%s : Z)" % nm)
    for i, kd in enumerate(spec["params"]):
        if kd == "int":
            b.append("(v_p%d : Z)" % i)
    for nm in sorted(spec.get("getters", {}).values()):
        b.append("(f_%s : Z)" % nm)
    if "accs" in spec:
        b.append("(v_k : Z)")
        for j in range(spec["accs"]):
            b.append("(a_%d : Z)" % j)
    for i in sorted(spec.get("nullable", ())):
        b.append("(nn_%d : bool)" % i)
    for nm in sorted(spec.get("nulltests", {}).values()):
        b.append("(nn_%s : bool)" % nm)
    for k in range(spec["oracles"]):
        b.append("(ok_%d : bool)" % k)
    for k in range(spec.get("calls", 0)):
        b.append("(c_%d : Z)" % k)
    return " ".join(b)

def all_nodes(n):
    if isinstance(n, dict):
        yield n
        for c in n.get("inner", []):
            for x in all_nodes(c):
                yield x

def translate_function(spec, cfg, sizes, alltu):
    """-> [(name suffix, Gallina definition)]: the function from its entry, then from the head of
       each of its loops"""
    src = os.path.join(cast.REPO, "src", spec["rel"])
    tu = load_tu(src, cfg["incs"], cfg["defs"])
    if spec["name"] not in tu["functions"]:
        raise Unsupported("function not found")
    decl, body = tu["functions"][spec["name"]]
    params = [p for p in decl.get("inner", []) if p.get("kind") == "ParmVarDecl"]
    if len(params) != len(spec["params"]):
        raise Unsupported("parameter list changed")
    cx = Cx(spec, tu, alltu, sizes)
    st = St()
    for i, (p, kd) in enumerate(zip(params, spec["params"])):
        t = desugared(p)
        if kd == "int":
            int_width(qual(p) if unconst(qual(p)) in UNSIGNED else t, cx)
            if is_ptr_type(t):
                raise Unsupported("parameter kind changed")
            st.env[p.get("id")] = ("int", "v_p%d" % i)
        elif kd == "ptr":
            if not is_ptr_type(t):
                raise Unsupported("parameter kind changed")
            st.env[p.get("id")] = ("ptr", ("arg", i), ())
        elif kd == "obj":
            if not unconst(t).startswith("struct "):
                raise Unsupported("parameter kind changed")
            st.env[p.get("id")] = ("objv", ("arg", i), ())
            cx.byvalue.add(("arg", i))
        elif kd == "float":
            if unconst(t) not in ("float", "double"):
                raise Unsupported("parameter kind changed")
            st.env[p.get("id")] = ("opq", i)
    rt = unconst(decl.get("type", {}).get("qualType", "").split("(")[0].strip())
    want = "void" if rt == "void" else ("ptr" if rt.endswith("*") else "int")
    if want != spec["ret"]:
        raise Unsupported("return type changed")
    if not spec.get("precise"):
        txt = S([body], st, cx)
        return [("", "Definition %s %s : plan :=\n  %s." % (gname(spec["name"]), signature(spec), txt))]
    # struct locals are objects named by their type; labels; loops in source order
    seen = {}
    for p_, kd in zip(params, spec["params"]):
        if kd in ("int", "ptr"):
            cx.scalars[p_.get("id")] = (p_.get("name"), desugared(p_))
    for n in all_nodes(body):
        if n.get("kind") == "VarDecl":
            tok = struct_local(n, cx)
            if tok is not None:
                if tok in seen:
                    raise Unsupported("two locals of type " + tok[1])
                seen[tok] = n.get("id")
                st.env[n.get("id")] = ("objv", tok, ())
            else:
                cx.scalars[n.get("id")] = (n.get("name"), desugared(n))
    top = [x for x in body.get("inner", [])]
    for i, x in enumerate(top):
        if x.get("kind") == "LabelStmt":
            cx.labels[x.get("declId")] = top[i:]
    loopnodes = []
    for n in all_nodes(body):
        if n.get("kind") == "LabelStmt" and n.get("declId") not in cx.labels:
            raise Unsupported("label inside a block")
        if n.get("kind") == "WhileStmt" or (n.get("kind") == "DoStmt" and not is_macro_do(n)) \
           or (n.get("kind") == "ForStmt" and not is_fill_loop(n)):
            cx.loops[n.get("id")] = len(cx.loops)
            loopnodes.append(n)
    if len(cx.loops) != spec.get("loops", 0):
        raise Unsupported("number of loops changed")
    for idx, node in enumerate(loopnodes):
        parts = node["inner"][2:] if node["kind"] == "ForStmt" else node["inner"]
        inside = set(x.get("id") for part in parts for x in all_nodes(part) if x.get("kind") == "VarDecl")
        cx.loopinfo[idx] = {"assigned": [sid for sid in cx.scalars if sid not in inside and any(assigns(x, sid) for x in parts)],
                            "arrivals": [], "backs": [], "class": {}, "accs": []}
        for other in loopnodes:
            if other is not node and any(x is other for x in all_nodes(node)):
                raise Unsupported("nested loops")
    env0 = dict(st.env)

    def segment_env(idx):
        info = cx.loopinfo[idx]
        env = dict(env0)
        for sid, (nm, ty) in cx.scalars.items():
            isptr = is_ptr_type(ty)
            if sid in info["assigned"]:
                if cx.phase == "A":
                    env[sid] = ("eptr", ("lsym", sid), "0") if isptr else ("int", "L_%s" % sid)
                else:
                    env[sid] = info["class"][sid][1]
            else:
                vals = [a.get(sid) for a in info["arrivals"]]
                if vals and all(v is not None and v == vals[0] for v in vals) and closed(vals[0]):
                    env[sid] = vals[0]
                elif sid in env0 and env0[sid][0] in ("int", "ptr") and not any(assigns(body, sid) for _ in (0,)):
                    env[sid] = env0[sid]          # a parameter that is never assigned
                elif sid in carried(info):
                    env[sid] = ("ptr", ("carry", carried(info).index(sid)), ())
                else:
                    env[sid] = ("stale",)
        return env

    def carried(info):
        """pointer locals that are not assigned in the loop but whose value at the loop head depends on
           the path taken to it (an allocation result): inputs of the round, PCarry j"""
        out = []
        for sid, (nm, ty) in cx.scalars.items():
            if sid in info["assigned"] or not is_ptr_type(ty):
                continue
            vals = [a.get(sid) for a in info["arrivals"]]
            if vals and all(v is not None and v[0] == "ptr" and v[2] == () for v in vals) \
               and not (all(v == vals[0] for v in vals) and closed(vals[0])):
                out.append(sid)
        return out
    cx.carried = carried

    def run():
        cx.n = 0
        cx.loop_rest = {}
        cx.segment = None
        st0 = St(); st0.env = dict(env0)
        out = [("", "Definition %s %s : plan :=\n  %s." % (gname(spec["name"]), signature(spec), S([body], st0, cx)))]
        for idx in range(len(cx.loops)):
            if idx not in cx.loop_rest:
                raise Unsupported("loop %d is not reached" % idx)
            node, rest = cx.loop_rest[idx]
            st1 = St()
            st1.env = segment_env(idx)
            cx.segment = idx
            if node["kind"] == "DoStmt":
                b, cond = node["inner"]
                stmts = [b, {"kind": "#DoTest", "cond": cond, "loop": idx}] + rest
            elif node["kind"] == "ForStmt":
                inner = [x for x in node["inner"]]
                bodyl = [inner[4]] + ([inner[3]] if inner[3].get("kind") else [])
                if not inner[2].get("kind"):
                    raise Unsupported("for loop without a condition")
                stmts = [{"kind": "#WhileHead", "cond": inner[2], "body": {"kind": "CompoundStmt", "inner": bodyl}, "loop": idx}] + rest
            else:
                inner = [x for x in node["inner"]]
                stmts = [{"kind": "#WhileHead", "cond": inner[0], "body": inner[-1], "loop": idx}] + rest
            out.append(("_loop%d" % idx, "Definition %s_loop%d %s : plan :=\n  %s." % (gname(spec["name"]), idx, signature(spec), S(stmts, st1, cx))))
        cx.segment = None
        return out

    if not any(info["assigned"] for info in cx.loopinfo.values()):
        cx.phase = "B"
        return run()
    cx.phase = "A"
    run()
    for idx, info in cx.loopinfo.items():
        classify(idx, info, cx)
    cx.phase = "B"
    return run()

def assigns(n, sid):
    """does the subtree assign / increment the variable with declaration id sid?  (`cbor_decref(&x)` is
       the release idiom: it is not counted, x is not used after it)"""
    released = set()
    for x in all_nodes(n):
        if x.get("kind") == "CallExpr":
            f = cast.strip(x["inner"][0])
            if f.get("kind") == "DeclRefExpr" and f.get("referencedDecl", {}).get("name") == "cbor_decref":
                for a in x["inner"][1:]:
                    released.add(id(cast.strip(a)))
    for x in all_nodes(n):
        k = x.get("kind")
        tgt = None
        if id(x) in released:
            continue
        if (k == "BinaryOperator" and x.get("opcode") == "=") or k == "CompoundAssignOperator":
            tgt = cast.strip(x["inner"][0])
        elif k == "UnaryOperator" and x.get("opcode") in ("++", "--"):
            tgt = cast.strip(x["inner"][0])
        elif k == "UnaryOperator" and x.get("opcode") == "&":
            tgt = cast.strip(x["inner"][0])
        if tgt is not None and tgt.get("kind") == "DeclRefExpr" and tgt.get("referencedDecl", {}).get("id") == sid:
            return True
    return False

def closed(v):
    """a value that depends only on the function's inputs (no per-path oracle, no loop state)"""
    txt = repr(v)
    return not _re.search(r"\b(c_\d|ok_\d|a_\d|v_k\b|L_0x|lsym)|'new'|'res'|'post'|'carry'", txt)

def classify(idx, info, cx):
    """loop-carried scalars: a counter (+1 / -1 per round on every back edge, known start) becomes an
       affine function of the round number v_k; an untouched one keeps its start value; any other
       integer is an accumulator a_j (an input of the round, its new value reported at the back edge)"""
    accs = []
    for sid in info["assigned"]:
        nm, ty = cx.scalars[sid]
        backs = [b.get(sid) for b in info["backs"]]
        inits = [a.get(sid) for a in info["arrivals"]]
        init = inits[0] if inits and all(x is not None and x == inits[0] for x in inits) and closed(inits[0]) else None
        if is_ptr_type(ty):
            ph = ("lsym", sid)
            if init is None or init[0] not in ("ptr", "eptr") or (init[0] == "ptr" and init[2] != ()):
                raise Unsupported("loop-carried pointer %s without a known start" % nm)
            base, off0 = init[1], (init[2] if init[0] == "eptr" else "0")
            if backs and all(b == ("eptr", ph, "(0 + 1)") for b in backs):
                info["class"][sid] = ("inc", ("eptr", base, "(%s + v_k)" % off0))
            elif all(b == ("eptr", ph, "0") for b in backs):
                info["class"][sid] = ("inv", init)
            else:
                raise Unsupported("loop-carried pointer %s is not advanced by one per round" % nm)
            continue
        try:
            w, signed = int_width(ty if unconst(ty) in UNSIGNED or unconst(ty) in SIGNED else ty, cx)
        except Unsupported:
            raise Unsupported("loop-carried local %s" % nm)
        ph = "L_%s" % sid
        def shape(op):
            t1 = "(%s %s 1)" % (ph, op)
            return ("int", t1 if signed else wrapz(w, t1))
        def norm(b):
            return None if b is None else (b[0], unparen(b[1].replace("((%s))" % ph, ph).replace("(%s)" % ph, ph))) if b[0] == "int" else b
        nb = [norm(b) for b in backs]
        def aff(op):
            t = "(%s %s v_k)" % (init[1], op)
            return ("int", t if signed else wrapz(w, t))
        if init is not None and init[0] == "int" and nb and all(b == shape("+") for b in nb):
            info["class"][sid] = ("inc", aff("+"))
        elif init is not None and init[0] == "int" and nb and all(b == shape("-") for b in nb):
            info["class"][sid] = ("dec", aff("-"))
        elif init is not None and all(b == ("int", ph) for b in nb):
            info["class"][sid] = ("inv", init)
        else:
            info["class"][sid] = ("acc", ("int", "a_%d" % len(accs)))
            accs.append(sid)
    if "accs" not in cx.spec and any(c[0] in ("inc", "dec", "acc") for c in info["class"].values()):
        nm = [cx.scalars[sid][0] for sid, c in info["class"].items() if c[0] in ("inc", "dec", "acc")][0]
        raise Unsupported("scalar local %s is live across a loop" % nm)
    if len(accs) > cx.spec.get("accs", 0):
        raise Unsupported("more loop accumulators than declared")
    info["accs"] = accs

def translate_all(cfg, sizes):
    out, notes = [], []
    alltu = {}
    for spec in FUNCTIONS:
        src = os.path.join(cast.REPO, "src", spec["rel"])
        try:
            alltu[src] = load_tu(src, cfg["incs"], cfg["defs"])
        except RuntimeError:
            pass
    for extra in ("cbor/common.c", "cbor/ints.c", "cbor/floats_ctrls.c"):
        src = os.path.join(cast.REPO, "src", extra)
        try:
            alltu[src] = load_tu(src, cfg["incs"], cfg["defs"])
        except RuntimeError:
            pass
    for spec in FUNCTIONS:
        try:
            out.append((spec, translate_function(spec, cfg, sizes, alltu)))
        except Unsupported as u:
            notes.append("%s: %s" % (spec["name"], u))
            out.append((spec, None))
        except RuntimeError as e:
            notes.append("%s: clang: %s" % (spec["name"], str(e)[:120]))
            out.append((spec, None))
        except (KeyError, IndexError, TypeError, ValueError, AttributeError, RecursionError) as e:
            notes.append("%s: unexpected AST shape (%s: %s)" % (spec["name"], type(e).__name__, str(e)[:80]))
            out.append((spec, None))
    enums = {}
    for nm in ENUMS:
        for tu in alltu.values():
            if nm in tu["enums"]:
                enums[nm] = tu["enums"][nm]
                break
    return out, notes, enums

ENUMS = ("_CBOR_METADATA_DEFINITE", "_CBOR_METADATA_INDEFINITE", "CBOR_TYPE_ARRAY", "CBOR_TYPE_MAP", "CBOR_TYPE_TAG")
ENUMS_LOAD = ("CBOR_TYPE_BYTESTRING", "CBOR_TYPE_STRING", "CBOR_ERR_NONE", "CBOR_ERR_NOTENOUGHDATA", "CBOR_ERR_NODATA",
              "CBOR_ERR_MALFORMATED", "CBOR_ERR_MEMERROR", "CBOR_ERR_SYNTAXERROR", "CBOR_DECODER_FINISHED",
              "CBOR_DECODER_NEDATA", "CBOR_DECODER_ERROR")

def emit(fns, enums, conf=None, group="containers", alltu_enums=None):
    lines = ["(* GENERATED by translator/effects.py from the clang AST of /repo/src — do not edit *)",
             "From Coq Require Import ZArith List Bool String.", "Import ListNotations.",
             "From CB Require Import GenLeafTypes HPlans%s." % {"load": " HPlansLoad", "ser": " HPlansSer", "ref": " HPlansRef", "copy": " HPlansCopy"}.get(group, ""),
             "Local Open Scope string_scope.", "Local Open Scope Z_scope.", "Local Open Scope bool_scope.", ""]
    names = {"containers": ENUMS, "load": ENUMS_LOAD, "ser": ENUMS_SER, "ref": (), "copy": ()}[group]
    table = enums if group == "containers" else (alltu_enums or {})
    for nm in names:
        if nm in table:
            lines.append("Definition E%s : Z := %d." % (nm, table[nm]))
        else:
            lines.append("Definition E%s : Z := fbE%s." % (nm, nm))
    lines.append("")
    for spec, segs in fns:
        if spec.get("group", "containers") != group:
            continue
        name = spec["name"]
        if segs is None:
            lines.append("(* %s: outside the supported subset — tied by correspondence only *)" % name)
            extra = ""
            if name == "_cbor_stack_push":      # the fallback takes the configured limit
                extra = " %s%%N" % int((conf or {}).get("CBOR_MAX_STACK_SIZE", 2048))
            for suffix in [""] + ["_loop%d" % i for i in range(spec.get("loops", 0))]:
                lines.append("Definition %s%s := fbplan_%s%s%s." % (gname(name), suffix, name.lstrip("_"), suffix, extra))
            lines.append("Definition %s_supported : bool := false." % gname(name))
        else:
            for _, txt in segs:
                lines.append(txt)
            lines.append("Definition %s_supported : bool := true." % gname(name))
        lines.append("")
    return "\n".join(lines)

ENUMS_SER = ("CBOR_TYPE_UINT", "CBOR_TYPE_NEGINT", "CBOR_TYPE_BYTESTRING", "CBOR_TYPE_STRING", "CBOR_TYPE_ARRAY", "CBOR_TYPE_MAP",
             "CBOR_TYPE_TAG", "CBOR_TYPE_FLOAT_CTRL", "CBOR_INT_8", "CBOR_INT_16", "CBOR_INT_32", "CBOR_INT_64",
             "CBOR_FLOAT_0", "CBOR_FLOAT_16", "CBOR_FLOAT_32", "CBOR_FLOAT_64")

def load_enums(cfg):
    """the enumerators the decoder-glue / serializer plans mention"""
    out = {}
    for rel in ("cbor.c", "cbor/internal/builder_callbacks.c", "cbor/serialization.c"):
        try:
            tu = load_tu(os.path.join(cast.REPO, "src", rel), cfg["incs"], cfg["defs"])
        except RuntimeError:
            continue
        for nm in ENUMS_LOAD + ENUMS_SER:
            if nm in tu["enums"]:
                out[nm] = tu["enums"][nm]
    return out

if __name__ == "__main__":
    import sys
    cfg = json.load(open(sys.argv[1]))
    group = sys.argv[2] if len(sys.argv) > 2 else "containers"
    sizes = {"sizeof_isd": 24, "sizeof_item": 48, "sizeof_pair": 16, "sizeof_ptr": 8, "sizeof_rec": 24}
    fns, notes, enums = translate_all(cfg, sizes)
    sys.stdout.write(emit(fns, enums, cfg.get("conf"), group, load_enums(cfg)))
    for n_ in notes:
        sys.stderr.write("translator_unsupported:" + n_ + "\n")
