"""clang JSON AST helpers shared by the translators."""
import json, os, subprocess

REPO = os.environ.get("VERIF_REPO", "/repo")

def ast_dump(src, incs, filt=None, defs=()):
    cmd = ["clang", "-fsyntax-only", "-std=c99", "-w"] + list(incs) + list(defs) + ["-Xclang", "-ast-dump=json"]
    if filt:
        cmd += ["-Xclang", "-ast-dump-filter=" + filt]
    cmd.append(src)
    p = subprocess.run(cmd, stdout=subprocess.PIPE, stderr=subprocess.PIPE, text=True)
    if p.returncode != 0:
        raise RuntimeError("clang failed on %s: %s" % (src, p.stderr[-2000:]))
    s = p.stdout
    dec = json.JSONDecoder()
    i, docs = 0, []
    while i < len(s):
        while i < len(s) and s[i].isspace():
            i += 1
        if i >= len(s):
            break
        d, j = dec.raw_decode(s, i)
        docs.append(d)
        i = j
    return docs

def function_body(docs, name):
    for d in docs:
        if d.get("kind") == "FunctionDecl" and d.get("name") == name:
            for x in d.get("inner", []):
                if x.get("kind") == "CompoundStmt":
                    return d, x
    return None, None

TRANSPARENT = ("ImplicitCastExpr", "ParenExpr", "CStyleCastExpr", "ConstantExpr")

def strip(n):
    """drop casts / parens (the normal form keeps only the operator structure)"""
    while n.get("kind") in TRANSPARENT and n.get("inner"):
        n = n["inner"][-1]
    return n

def expr(n):
    """expression -> nested tuple normal form"""
    n = strip(n)
    k = n.get("kind")
    if k == "IntegerLiteral":
        return ("int", int(n["value"]))
    if k == "CXXBoolLiteralExpr":
        return ("int", 1 if n.get("value") else 0)
    if k == "DeclRefExpr":
        return ("var", n["referencedDecl"]["name"])
    if k == "BinaryOperator":
        a, b = n["inner"]
        return ("bin", n["opcode"], expr(a), expr(b))
    if k == "UnaryOperator":
        return ("un", n["opcode"], expr(n["inner"][0]))
    if k == "CallExpr":
        f = strip(n["inner"][0])
        if f.get("kind") == "MemberExpr":
            return ("mcall", f["name"], [expr(a) for a in n["inner"][1:]])
        return ("call", expr(f), [expr(a) for a in n["inner"][1:]])
    if k == "MemberExpr":
        return ("member", n["name"], expr(n["inner"][0]))
    if k == "CompoundLiteralExpr":
        return ("complit", [expr(x) for x in n.get("inner", [])])
    if k == "InitListExpr":
        return ("init", [expr(x) for x in n.get("inner", [])])
    if k == "ConditionalOperator":
        return ("cond",) + tuple(expr(x) for x in n["inner"])
    if k == "UnaryExprOrTypeTraitExpr":
        return ("sizeof", n.get("argType", {}).get("qualType", "?"))
    return ("?", k)

def mentions(n, name):
    if isinstance(n, dict):
        if n.get("kind") == "DeclRefExpr" and n.get("referencedDecl", {}).get("name") == name:
            return True
        return any(mentions(c, name) for c in n.get("inner", []))
    return False
