"""Inventories read off the clang AST of every library source: variables with static storage
duration (and who assigns them), allocator call sites, direct uses of libc allocation functions,
CBOR_ASSERT sites are counted textually."""
import os, re
from . import cast

LIBC_ALLOC = {"malloc", "calloc", "realloc", "free", "strdup", "strndup", "alloca", "aligned_alloc", "posix_memalign", "reallocarray"}
# AUDIT2: the compiler's spellings of the same functions and the other libc entry points that hand out / take back heap memory
LIBC_ALLOC |= {"__builtin_" + f for f in ("malloc", "calloc", "realloc", "free", "strdup", "strndup", "alloca", "aligned_alloc", "alloca_with_align")}
LIBC_ALLOC |= {"memalign", "valloc", "pvalloc", "cfree", "asprintf", "vasprintf", "getline", "getdelim", "open_memstream", "realpath", "mmap", "munmap", "sbrk", "brk"}
ALLOC_PTRS = {"_cbor_malloc", "_cbor_realloc", "_cbor_free"}

def walk(n, fn, ctx=None):
    if not isinstance(n, dict):
        return
    k = n.get("kind")
    if k == "FunctionDecl":
        ctx = n.get("name")
    fn(n, ctx)
    for c in n.get("inner", []):
        walk(c, fn, ctx)

INT_BITS = {"size_t": 64, "uint64_t": 64, "unsigned long": 64, "long": 64, "uint32_t": 32, "unsigned int": 32, "int": 32, "uint16_t": 16,
            "unsigned short": 16, "short": 16, "uint8_t": 8, "unsigned char": 8, "char": 8, "int8_t": 8, "signed char": 8, "bool": 8, "_Bool": 8,
            "int16_t": 16, "int32_t": 32, "int64_t": 64, "long long": 64, "unsigned long long": 64}

def int_bits(t):
    t = (t or "").replace("const ", "").replace("volatile ", "").strip()
    return INT_BITS.get(t)

def max_value(n):
    """a syntactic upper bound of a non-negative integer expression, or None: literals, sizeof, x & c, x % c, x >> k
    (from the operand's width), comparisons / logical operators, ?: of bounded arms.  A narrowing conversion whose
    operand is bounded below 2^(target width) cannot truncate and is not listed."""
    n = cast.strip(n) if n.get("kind") in ("ParenExpr", "ConstantExpr") else n
    k = n.get("kind")
    if k in ("ParenExpr", "ConstantExpr") and n.get("inner"):
        return max_value(n["inner"][-1])
    if k in ("ImplicitCastExpr", "CStyleCastExpr") and n.get("inner"):
        inner = max_value(n["inner"][-1])
        t = n.get("type", {})
        b = int_bits(t.get("desugaredQualType") or t.get("qualType"))
        if inner is not None and (b is None or inner < (1 << b)):
            return inner
        return (1 << b) - 1 if b else None
    if k in ("IntegerLiteral", "CharacterLiteral"):
        return int(n["value"])
    if k == "CXXBoolLiteralExpr":
        return 1
    if k == "UnaryExprOrTypeTraitExpr":
        return 1 << 16                     # sizeof / alignof of a library type
    if k == "BinaryOperator":
        op = n.get("opcode")
        a, b = n["inner"]
        if op in ("<", "<=", ">", ">=", "==", "!=", "&&", "||"):
            return 1
        ma, mb = max_value(a), max_value(b)
        if op == "&":
            c = [x for x in (ma, mb) if x is not None]
            return min(c) if c else None
        if op == "%" and mb is not None and mb > 0:
            return mb - 1
        if op == ">>" and cast.strip(b).get("kind") == "IntegerLiteral":
            t = a.get("type", {})
            w = int_bits(t.get("desugaredQualType") or t.get("qualType"))
            sh = int(cast.strip(b)["value"])
            if ma is not None:
                return ma >> sh
            return (1 << (w - sh)) - 1 if w and sh < w else None
        if op == "/" and ma is not None and mb is not None:
            return ma
        return None
    if k == "UnaryOperator" and n.get("opcode") == "!":
        return 1
    if k == "ConditionalOperator":
        x, y = max_value(n["inner"][1]), max_value(n["inner"][2])
        return max(x, y) if x is not None and y is not None else None
    t = n.get("type", {})
    b = int_bits(t.get("desugaredQualType") or t.get("qualType"))
    return (1 << b) - 1 if b and b < 64 else None

def scan(cfg):
    globals_, assigns, allocsites, libc, notes = {}, set(), {}, set(), []
    fields, narrowing = {}, {}
    arms = set()
    src_prefix = os.path.join(cast.REPO, "src") + "/"
    for src in cfg["srcs"]:
        rel = os.path.relpath(src, os.path.join(cast.REPO, "src"))
        try:
            docs = cast.ast_dump(src, cfg["incs"], None, cfg["defs"])
        except RuntimeError as e:
            notes.append("inventory: %s: %s" % (rel, str(e)[:200]))
            continue
        tu = docs[0]
        cur_file = [None]
        def visit(n, ctx):
            loc = n.get("loc", {})
            f = loc.get("file") or loc.get("expansionLoc", {}).get("file") or loc.get("spellingLoc", {}).get("file")
            if f:
                cur_file[0] = f
            k = n.get("kind")
            if k == "VarDecl":
                infile = cur_file[0] or ""
                sc = n.get("storageClass")
                is_static_storage = (ctx is None and sc != "extern") or (ctx is not None and sc == "static")
                if is_static_storage and infile.startswith(src_prefix) and not n.get("isImplicit"):
                    has_init = any(x.get("kind") not in ("FullComment",) for x in n.get("inner", [])) or "init" in n
                    # only definitions in .c files, or header statics (version constants)
                    qual = n.get("type", {}).get("qualType", "")
                    name = n["name"]
                    where = os.path.relpath(infile, os.path.join(cast.REPO, "src"))
                    if where.endswith(".h") and sc != "static":
                        return
                    key = (name, where if where.endswith(".c") else "header", ctx or "")
                    globals_[key] = ("const" in qual.split("*")[-1] or qual.startswith("const ")) and not qual.endswith("*") or (qual.startswith("const ") and "*" not in qual)
            if k in ("BinaryOperator", "CompoundAssignOperator") and n.get("opcode", "").endswith("=") and n.get("opcode") not in ("==", "!=", "<=", ">="):
                lhs = cast.strip(n["inner"][0])
                # AUDIT2: `callbacks.uint8 = f;` / `table[i] = v;` write the variable too (only `x = ..` was seen)
                while lhs.get("kind") in ("MemberExpr", "ArraySubscriptExpr") and not lhs.get("isArrow") and lhs.get("inner"):
                    lhs = cast.strip(lhs["inner"][0])
                if lhs.get("kind") == "DeclRefExpr":
                    d = lhs.get("referencedDecl", {})
                    if d.get("kind") == "VarDecl":
                        assigns.add((d.get("name"), ctx or "", id(d) and d.get("id", "")))
            if k == "UnaryOperator" and n.get("opcode") in ("++", "--"):
                lhs = cast.strip(n["inner"][0])
                if lhs.get("kind") == "DeclRefExpr" and lhs.get("referencedDecl", {}).get("kind") == "VarDecl":
                    d = lhs["referencedDecl"]
                    assigns.add((d.get("name"), ctx or "", d.get("id", "")))
            if k == "CallExpr" and ctx is not None:
                f0 = cast.strip(n["inner"][0])
                if f0.get("kind") == "DeclRefExpr":
                    nm = f0.get("referencedDecl", {}).get("name")
                    if nm in ALLOC_PTRS:
                        allocsites[(rel, ctx, nm)] = allocsites.get((rel, ctx, nm), 0) + 1
            if k == "RecordDecl" and n.get("name") and n.get("completeDefinition"):
                infile = cur_file[0] or ""
                if infile.startswith(src_prefix):
                    for fdecl in n.get("inner", []):
                        if fdecl.get("kind") == "FieldDecl":
                            t = fdecl.get("type", {})
                            b = int_bits(t.get("desugaredQualType") or t.get("qualType"))
                            if b:
                                fields[(n["name"], fdecl["name"])] = b
            if k == "ImplicitCastExpr" and n.get("castKind") == "IntegralCast" and ctx is not None:
                t = n.get("type", {})
                to = int_bits(t.get("desugaredQualType") or t.get("qualType"))
                inner = n.get("inner", [{}])[0]
                ti = inner.get("type", {})
                frm = int_bits(ti.get("desugaredQualType") or ti.get("qualType"))
                lit = cast.strip(inner).get("kind") in ("IntegerLiteral", "CharacterLiteral")
                mv = max_value(inner)
                fits = bool(to) and mv is not None and mv < (1 << (to - 1 if (t.get("desugaredQualType") or t.get("qualType") or "").replace("const ", "").strip() in ("int", "short", "char", "long", "int8_t", "int16_t", "int32_t", "signed char") else to))
                if to and frm and to < frm and not lit and not fits:
                    infile = cur_file[0] or ""
                    if infile.startswith(src_prefix) and infile.endswith(".c"):
                        key = (rel, ctx, frm, to)
                        narrowing[key] = narrowing.get(key, 0) + 1
            if k == "CompoundAssignOperator" and ctx is not None:
                # AUDIT2: `x op= e` computes in computeResultType and converts back to the type of x WITHOUT an ImplicitCastExpr
                # node (`unsigned consumed; consumed += decode_result.read;` truncates a size_t and was listed nowhere)
                tl = n.get("inner", [{}])[0].get("type", {})
                to = int_bits(tl.get("desugaredQualType") or tl.get("qualType"))
                tr = n.get("computeResultType", {})
                frm = int_bits(tr.get("desugaredQualType") or tr.get("qualType"))
                rhs = n.get("inner", [{}, {}])[1]
                mv = max_value(rhs)
                shrink = n.get("opcode") in (">>=", "/=", "%=", "&=")      # cannot exceed the old value of x
                if to and frm and to < frm and not shrink and not (n.get("opcode") in ("|=", "^=") and mv is not None and mv < (1 << to)):
                    infile = cur_file[0] or ""
                    if infile.startswith(src_prefix) and infile.endswith(".c"):
                        key = (rel, ctx, frm, to)
                        narrowing[key] = narrowing.get(key, 0) + 1
            if k == "MemberExpr" and ctx is not None and n.get("inner"):
                # AUDIT2: which arm of union cbor_item_metadata each function reads or writes (the plan translator drops arm names)
                bt = n["inner"][0].get("type", {})
                bq = (bt.get("desugaredQualType") or bt.get("qualType") or "").replace("const ", "").strip()
                if bq == "union cbor_item_metadata":
                    infile = cur_file[0] or ""
                    if infile.startswith(src_prefix) and infile.endswith(".c"):
                        arms.add((rel, ctx, n.get("name")))
            if k == "DeclRefExpr":
                nm = n.get("referencedDecl", {}).get("name")
                if nm in LIBC_ALLOC and n.get("referencedDecl", {}).get("kind") == "FunctionDecl":
                    infile = cur_file[0] or ""
                    libc.add((rel, ctx or "<file scope>", nm))
        walk(tu, visit)
    # AUDIT2: the translators read ONE preprocessor configuration (clang, the cmake definitions, neither NDEBUG nor DEBUG), the
    # library is compiled by gcc with other definitions: code under `#ifdef NDEBUG` / `__clang__` / `__OPTIMIZE__` .. would be
    # translated from one branch and compiled from the other.  Inventory of the macros the conditionals of src/ test.
    ppmacros = set()
    srcroot = os.path.join(cast.REPO, "src")
    for dp, _, fns in os.walk(srcroot):
        for fn_ in fns:
            if not fn_.endswith((".c", ".h", ".h.in", ".inc")):
                continue
            try:
                lines_ = open(os.path.join(dp, fn_), errors="replace").read().replace("\\\n", " ").split("\n")
            except OSError:
                continue
            for i_, ln in enumerate(lines_):
                m_ = re.match(r"\s*#\s*(if|ifdef|ifndef|elif)\b(.*)", ln)
                if not m_:
                    continue
                ids = [x for x in re.findall(r"[A-Za-z_][A-Za-z_0-9]*", re.sub(r"/\*.*?\*/|//.*", "", m_.group(2))) if x != "defined"]
                nxt = lines_[i_ + 1] if i_ + 1 < len(lines_) else ""
                if m_.group(1) == "ifndef" and len(ids) == 1 and re.match(r"\s*#\s*define\s+%s\b" % re.escape(ids[0]), nxt):
                    continue        # include guard
                ppmacros.update(ids)
    # which globals are assigned, and where
    gl = []
    ids = {}
    for (name, where, fn), is_const in sorted(globals_.items()):
        writers = sorted({a[1] for a in assigns if a[0] == name and (fn == "" or a[1] == fn)})
        gl.append((name, where, fn, bool(is_const), writers))
    return {"globals": gl,
            "allocsites": sorted((f, fn, p, c) for (f, fn, p), c in allocsites.items()),
            "libc": sorted(libc),
            "fields": sorted((st, f, b) for (st, f), b in fields.items()),
            "narrowing": sorted((f, fn, a, b, c) for (f, fn, a, b), c in narrowing.items()),
            "arms": sorted(arms), "ppmacros": sorted(ppmacros)}, notes

def q(s):
    return '"%s"' % s

def emit(inv):
    lines = ["(* GENERATED by translator/inventory.py from the clang AST of every library source — do not edit *)",
             "From Coq Require Import List String NArith.", "Import ListNotations.", "Local Open Scope string_scope.",
             "(* variables with static storage duration defined in src/: (name, file, enclosing function, const?, functions that assign it) *)",
             "Definition gen_globals : list (string * string * string * bool * list string) := ["]
    lines.append(";\n".join("  (%s, %s, %s, %s, [%s])" % (q(n), q(w), q(f), "true" if c else "false", "; ".join(q(x) for x in ws))
                            for (n, w, f, c, ws) in inv["globals"]))
    lines.append("].")
    lines.append("(* calls through the allocator pointers: (file, function, pointer, count) *)")
    lines.append("Definition gen_allocsites : list (string * string * string * N) := [")
    lines.append(";\n".join("  (%s, %s, %s, %d%%N)" % (q(f), q(fn), q(p), c) for (f, fn, p, c) in inv["allocsites"]))
    lines.append("].")
    lines.append("(* direct references to libc allocation functions: (file, function, name) *)")
    lines.append("Definition gen_libc_refs : list (string * string * string) := [")
    lines.append(";\n".join("  (%s, %s, %s)" % (q(f), q(fn), q(n)) for (f, fn, n) in inv["libc"]))
    lines.append("].")
    lines.append("(* integer fields of the structs defined in src/: (struct, field, width in bits) *)")
    lines.append("Definition gen_fields : list (string * string * N) := [")
    lines.append(";\n".join("  (%s, %s, %d%%N)" % (q(st), q(f), b) for (st, f, b) in inv.get("fields", [])))
    lines.append("].")
    lines.append("(* implicit integer conversions to a narrower type in the .c files: (file, function, from bits, to bits, count) *)")
    lines.append("Definition gen_narrowing : list (string * string * N * N * N) := [")
    lines.append(";\n".join("  (%s, %s, %d%%N, %d%%N, %d%%N)" % (q(f), q(fn), a, b, c) for (f, fn, a, b, c) in inv.get("narrowing", [])))
    lines.append("].")
    lines.append("(* AUDIT2: macros tested by the preprocessor conditionals of src/ (include guards excluded) *)")
    lines.append("Definition gen_pp_macros : list string := [%s]." % "; ".join(q(m) for m in inv.get("ppmacros", [])))
    lines.append("(* AUDIT2: arms of union cbor_item_metadata accessed in the .c files: (file, function, arm) *)")
    lines.append("Definition gen_union_arms : list (string * string * string) := [")
    lines.append(";\n".join("  (%s, %s, %s)" % (q(f), q(fn), q(a)) for (f, fn, a) in inv.get("arms", [])))
    lines.append("].")
    return "\n".join(lines) + "\n"
