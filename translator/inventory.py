"""Inventories read off the clang AST of every library source: variables with static storage
duration (and who assigns them), allocator call sites, direct uses of libc allocation functions,
CBOR_ASSERT sites are counted textually."""
import os, re
from . import cast

LIBC_ALLOC = {"malloc", "calloc", "realloc", "free", "strdup", "strndup", "alloca", "aligned_alloc", "posix_memalign", "reallocarray"}
# AUDIT2: the compiler's spellings of the same functions and the other libc entry points that hand out / take back heap memory
LIBC_ALLOC |= {"__builtin_" + f for f in ("malloc", "calloc", "realloc", "free", "strdup", "strndup", "alloca", "aligned_alloc", "alloca_with_align")}
LIBC_ALLOC |= {"memalign", "valloc", "pvalloc", "cfree", "asprintf", "vasprintf", "getline", "getdelim", "open_memstream", "realpath", "mmap", "munmap", "sbrk", "brk"}
ALLOC_PTRS = {"_cbor_malloc", "_cbor_realloc", "_cbor_free"}
# libc functions that keep or return static storage / process-wide state (C11 7.1.4p5 "not required to avoid data races", POSIX
# "need not be thread-safe"): calling one from the library makes the library share mutable state between threads
LIBC_STATE = {"gmtime", "localtime", "ctime", "asctime", "strtok", "rand", "srand", "random", "srandom", "drand48", "lrand48", "mrand48",
              "srand48", "strerror", "strsignal", "setlocale", "localeconv", "tmpnam", "tempnam", "mktemp", "getenv", "setenv", "putenv", "unsetenv",
              "readdir", "getpwnam", "getpwuid", "getgrnam", "getgrgid", "gethostbyname", "gethostbyaddr", "inet_ntoa", "ttyname", "getlogin",
              "basename", "dirname", "ecvt", "fcvt", "gcvt", "l64a", "nl_langinfo", "mbrtowc", "wcrtomb", "mbtowc", "wctomb", "mblen", "mbstowcs",
              "wcstombs", "mbsrtowcs", "wcsrtombs", "catgets", "crypt", "encrypt", "setkey", "hcreate", "hsearch", "hdestroy", "lgamma", "lgammaf",
              "signal", "atexit", "exit", "abort", "longjmp", "setjmp", "fesetround", "fesetenv", "feclearexcept", "feraiseexcept", "fesetexceptflag"}

def walk(n, fn, ctx=None):
    if not isinstance(n, dict):
        return
    k = n.get("kind")
    if k == "FunctionDecl":
        ctx = n.get("name")
    fn(n, ctx)
    for c in n.get("inner", []):
        walk(c, fn, ctx)

INT_BITS = {"size_t": 64, "uint64_t": 64, "unsigned long": 64, "long": 64, "uint32_t": 32, "unsigned int": 32, "int": 32, "uint16_t": 16,
            "unsigned short": 16, "short": 16, "uint8_t": 8, "unsigned char": 8, "char": 8, "int8_t": 8, "signed char": 8, "bool": 8, "_Bool": 8,
            "int16_t": 16, "int32_t": 32, "int64_t": 64, "long long": 64, "unsigned long long": 64}

def int_bits(t):
    t = (t or "").replace("const ", "").replace("volatile ", "").strip()
    return INT_BITS.get(t)

def max_value(n):
    """a syntactic upper bound of a non-negative integer expression, or None: literals, sizeof, x & c, x % c, x >> k
    (from the operand's width), comparisons / logical operators, ?: of bounded arms.  A narrowing conversion whose
    operand is bounded below 2^(target width) cannot truncate and is not listed."""
    n = cast.strip(n) if n.get("kind") in ("ParenExpr", "ConstantExpr") else n
    k = n.get("kind")
    if k in ("ParenExpr", "ConstantExpr") and n.get("inner"):
        return max_value(n["inner"][-1])
    if k in ("ImplicitCastExpr", "CStyleCastExpr") and n.get("inner"):
        inner = max_value(n["inner"][-1])
        t = n.get("type", {})
        b = int_bits(t.get("desugaredQualType") or t.get("qualType"))
        if inner is not None and (b is None or inner < (1 << b)):
            return inner
        return (1 << b) - 1 if b else None
    if k in ("IntegerLiteral", "CharacterLiteral"):
        return int(n["value"])
    if k == "CXXBoolLiteralExpr":
        return 1
    if k == "UnaryExprOrTypeTraitExpr":
        return 1 << 16                     # sizeof / alignof of a library type
    if k == "BinaryOperator":
        op = n.get("opcode")
        a, b = n["inner"]
        if op in ("<", "<=", ">", ">=", "==", "!=", "&&", "||"):
            return 1
        ma, mb = max_value(a), max_value(b)
        if op == "&":
            c = [x for x in (ma, mb) if x is not None]
            return min(c) if c else None
        if op == "%" and mb is not None and mb > 0:
            return mb - 1
        if op == ">>" and cast.strip(b).get("kind") == "IntegerLiteral":
            t = a.get("type", {})
            w = int_bits(t.get("desugaredQualType") or t.get("qualType"))
            sh = int(cast.strip(b)["value"])
            if ma is not None:
                return ma >> sh
            return (1 << (w - sh)) - 1 if w and sh < w else None
        if op == "/" and ma is not None and mb is not None:
            return ma
        return None
    if k == "UnaryOperator" and n.get("opcode") == "!":
        return 1
    if k == "ConditionalOperator":
        x, y = max_value(n["inner"][1]), max_value(n["inner"][2])
        return max(x, y) if x is not None and y is not None else None
    t = n.get("type", {})
    b = int_bits(t.get("desugaredQualType") or t.get("qualType"))
    return (1 << b) - 1 if b and b < 64 else None

def mem_lvalue(lhs, locals_):
    """does a store to this lvalue write memory other than an automatic variable / parameter of the function?
       (`x = ..`, `x.f = ..`, `a[i] = ..` for a local array `a` do not; `*p = ..`, `p->f = ..`, `p[i] = ..`, `global = ..` do)"""
    n = lhs
    while True:
        n = cast.strip(n)
        k = n.get("kind")
        if k == "DeclRefExpr":
            d = n.get("referencedDecl", {})
            return not (d.get("kind") in ("VarDecl", "ParmVarDecl") and d.get("id") in locals_)
        if k == "MemberExpr" and not n.get("isArrow") and n.get("inner"):
            n = n["inner"][0]
            continue
        if k == "ArraySubscriptExpr" and n.get("inner"):
            base = n["inner"][0]
            # a local ARRAY decays to a pointer through an ImplicitCastExpr(ArrayToPointerDecay) directly above its DeclRefExpr
            b = base
            while b.get("kind") in ("ParenExpr",) and b.get("inner"):
                b = b["inner"][-1]
            if b.get("kind") == "ImplicitCastExpr" and b.get("castKind") == "ArrayToPointerDecay" and b.get("inner"):
                n = b["inner"][0]
                continue
            return True
        return True

def scan(cfg):
    globals_, assigns, allocsites, libc, notes = {}, set(), {}, set(), []
    libc_state = set()
    fields, narrowing = {}, {}
    arms = set()
    funcs, locals_ = {}, set()     # call graph / stores through memory, per function defined (with a body) under src/
    ginit, gconst, gfp = {}, {}, {}   # variables with static storage: functions named by the initialiser, const?, may hold a function pointer?
    safe_nodes, escapes = set(), set()  # address-of / decay nodes that only yield a pointer-to-const or an element read; (name) whose address escapes
    src_prefix = os.path.join(cast.REPO, "src") + "/"
    for src in cfg["srcs"]:
        rel = os.path.relpath(src, os.path.join(cast.REPO, "src"))
        try:
            docs = cast.ast_dump(src, cfg["incs"], None, cfg["defs"])
        except RuntimeError as e:
            notes.append("inventory: %s: %s" % (rel, str(e)[:200]))
            continue
        tu = docs[0]
        cur_file = [None]
        def visit(n, ctx):
            loc = n.get("loc", {})
            f = loc.get("file") or loc.get("expansionLoc", {}).get("file") or loc.get("spellingLoc", {}).get("file")
            if f:
                cur_file[0] = f
            k = n.get("kind")
            # ---- address-of / array decay of variables with static storage: does a pointer through which the variable could be
            # written leave the expression?  `&v` / decayed `v` directly under a conversion to pointer-to-const, or as the base of a
            # subscript, does not count
            if k in ("ImplicitCastExpr", "CStyleCastExpr") and n.get("inner"):
                qt = (n.get("type", {}).get("qualType") or "")
                if re.match(r"^const\b[^*]*\*\s*(const)?$", qt) or re.search(r"\bconst\s*\*\s*(const)?$", qt):
                    m_ = n
                    while m_.get("kind") in ("ImplicitCastExpr", "CStyleCastExpr", "ParenExpr") and m_.get("inner") and \
                            not (m_.get("kind") == "ImplicitCastExpr" and m_.get("castKind") == "ArrayToPointerDecay"):
                        m_ = m_["inner"][-1]
                    safe_nodes.add(id(m_))
            if k == "ArraySubscriptExpr" and n.get("inner"):
                b_ = n["inner"][0]
                while b_.get("kind") == "ParenExpr" and b_.get("inner"):
                    b_ = b_["inner"][-1]
                safe_nodes.add(id(b_))
            if (k == "UnaryOperator" and n.get("opcode") == "&") or (k == "ImplicitCastExpr" and n.get("castKind") == "ArrayToPointerDecay"):
                if id(n) not in safe_nodes and n.get("inner"):
                    r_ = n["inner"][0]
                    while True:
                        r_ = cast.strip(r_)
                        if r_.get("kind") in ("MemberExpr", "ArraySubscriptExpr") and not r_.get("isArrow") and r_.get("inner"):
                            r_ = r_["inner"][0]
                        else:
                            break
                    if r_.get("kind") == "DeclRefExpr" and r_.get("referencedDecl", {}).get("kind") == "VarDecl" \
                            and r_["referencedDecl"].get("id") not in locals_:
                        escapes.add(r_["referencedDecl"].get("name"))
            if k == "VarDecl" and ((ctx is None and n.get("storageClass") != "extern") or (ctx is not None and n.get("storageClass") == "static")):
                fr = set()
                def _fr(x):
                    if isinstance(x, dict):
                        if x.get("kind") == "DeclRefExpr" and x.get("referencedDecl", {}).get("kind") == "FunctionDecl":
                            fr.add(x["referencedDecl"].get("name"))
                        for c_ in x.get("inner", []):
                            _fr(c_)
                for c_ in n.get("inner", []):
                    _fr(c_)
                has_init = any(c_.get("kind") not in ("FullComment",) for c_ in n.get("inner", []))
                if has_init:
                    ginit.setdefault(n["name"], set()).update(fr)
                qt_ = n.get("type", {}).get("qualType", "")
                dq_ = n.get("type", {}).get("desugaredQualType") or qt_
                gconst[n["name"]] = gconst.get(n["name"], True) and (qt_.startswith("const ") or "*const" in qt_.replace(" ", "") and qt_.rstrip().endswith("const"))
                gfp[n["name"]] = gfp.get(n["name"], False) or ("(*" in dq_ or "struct " in dq_ or "union " in dq_)
            if k == "VarDecl" and n.get("storageClass") == "extern":
                dq_ = n.get("type", {}).get("desugaredQualType") or n.get("type", {}).get("qualType", "")
                gfp[n["name"]] = gfp.get(n["name"], False) or ("(*" in dq_ or "struct " in dq_ or "union " in dq_)
            # ---- call graph and memory stores (C18: read-only getters; C13 / C08: functions that must not reach the allocator)
            if k in ("VarDecl", "ParmVarDecl") and ctx is not None and n.get("storageClass") not in ("static", "extern"):
                locals_.add(n.get("id"))
            if k == "FunctionDecl" and any(x.get("kind") == "CompoundStmt" for x in n.get("inner", [])):
                infile = cur_file[0] or ""
                if infile.startswith(src_prefix):
                    funcs.setdefault(n.get("name"), {"file": os.path.relpath(infile, os.path.join(cast.REPO, "src")), "callees": set(), "stores": 0, "grefs": set()})
            if ctx in funcs:
                if k == "DeclRefExpr" and n.get("referencedDecl", {}).get("kind") == "FunctionDecl":
                    funcs[ctx]["callees"].add(n["referencedDecl"].get("name"))
                if k == "CallExpr" and n.get("inner"):
                    f0 = n["inner"][0]
                    # the root of the callee expression: `f`, `(*p)`, `table[i]`, `s.member`, `q->member`
                    while True:
                        f0 = cast.strip(f0)
                        fk = f0.get("kind")
                        if fk == "UnaryOperator" and f0.get("opcode") == "*" and f0.get("inner"):
                            f0 = f0["inner"][0]
                        elif fk == "ArraySubscriptExpr" and f0.get("inner"):
                            f0 = f0["inner"][0]
                        elif fk == "MemberExpr" and not f0.get("isArrow") and f0.get("inner"):
                            f0 = f0["inner"][0]
                        else:
                            break
                    if f0.get("kind") == "MemberExpr":
                        funcs[ctx]["callees"].add("*" + (f0.get("name") or "?"))     # `callbacks->uint8(..)`: the member of a pointed-to object
                    elif f0.get("kind") == "DeclRefExpr":
                        d = f0.get("referencedDecl", {})
                        if d.get("kind") == "FunctionDecl":
                            pass                                                       # direct call: recorded by the DeclRefExpr rule
                        elif d.get("id") in locals_:
                            funcs[ctx]["callees"].add("*(local)")                      # through a parameter / automatic variable of the function
                        else:
                            funcs[ctx]["grefs"].add(d.get("name"))                     # through a variable with static storage: resolved below
                    else:
                        funcs[ctx]["callees"].add("*?")
                if k == "DeclRefExpr" and n.get("referencedDecl", {}).get("kind") == "VarDecl" and n["referencedDecl"].get("id") not in locals_:
                    funcs[ctx]["grefs"].add(n["referencedDecl"].get("name"))
                if k in ("GCCAsmStmt", "MSAsmStmt"):
                    funcs[ctx]["stores"] += 1                  # inline assembly may store anywhere and call anything
                    funcs[ctx]["callees"].add("*asm")
                lhs = None
                if k in ("BinaryOperator", "CompoundAssignOperator") and n.get("opcode", "").endswith("=") and n.get("opcode") not in ("==", "!=", "<=", ">="):
                    lhs = n["inner"][0]
                if k == "UnaryOperator" and n.get("opcode") in ("++", "--"):
                    lhs = n["inner"][0]
                if lhs is not None and mem_lvalue(lhs, locals_):
                    funcs[ctx]["stores"] += 1
            if k == "VarDecl":
                infile = cur_file[0] or ""
                sc = n.get("storageClass")
                is_static_storage = (ctx is None and sc != "extern") or (ctx is not None and sc == "static")
                if is_static_storage and infile.startswith(src_prefix) and not n.get("isImplicit"):
                    has_init = any(x.get("kind") not in ("FullComment",) for x in n.get("inner", [])) or "init" in n
                    # only definitions in .c files, or header statics (version constants)
                    qual = n.get("type", {}).get("qualType", "")
                    name = n["name"]
                    where = os.path.relpath(infile, os.path.join(cast.REPO, "src"))
                    if where.endswith(".h") and sc != "static":
                        return
                    key = (name, where if where.endswith(".c") else "header", ctx or "")
                    globals_[key] = ("const" in qual.split("*")[-1] or qual.startswith("const ")) and not qual.endswith("*") or (qual.startswith("const ") and "*" not in qual)
            if k in ("BinaryOperator", "CompoundAssignOperator") and n.get("opcode", "").endswith("=") and n.get("opcode") not in ("==", "!=", "<=", ">="):
                lhs = cast.strip(n["inner"][0])
                # AUDIT2: `callbacks.uint8 = f;` / `table[i] = v;` write the variable too (only `x = ..` was seen)
                while lhs.get("kind") in ("MemberExpr", "ArraySubscriptExpr") and not lhs.get("isArrow") and lhs.get("inner"):
                    lhs = cast.strip(lhs["inner"][0])
                if lhs.get("kind") == "DeclRefExpr":
                    d = lhs.get("referencedDecl", {})
                    if d.get("kind") == "VarDecl":
                        assigns.add((d.get("name"), ctx or "", id(d) and d.get("id", "")))
            if k == "UnaryOperator" and n.get("opcode") in ("++", "--"):
                lhs = cast.strip(n["inner"][0])
                if lhs.get("kind") == "DeclRefExpr" and lhs.get("referencedDecl", {}).get("kind") == "VarDecl":
                    d = lhs["referencedDecl"]
                    assigns.add((d.get("name"), ctx or "", d.get("id", "")))
            if k == "CallExpr" and ctx is not None:
                f0 = cast.strip(n["inner"][0])
                if f0.get("kind") == "DeclRefExpr":
                    nm = f0.get("referencedDecl", {}).get("name")
                    if nm in ALLOC_PTRS:
                        allocsites[(rel, ctx, nm)] = allocsites.get((rel, ctx, nm), 0) + 1
            if k == "RecordDecl" and n.get("name") and n.get("completeDefinition"):
                infile = cur_file[0] or ""
                if infile.startswith(src_prefix):
                    for fdecl in n.get("inner", []):
                        if fdecl.get("kind") == "FieldDecl":
                            t = fdecl.get("type", {})
                            b = int_bits(t.get("desugaredQualType") or t.get("qualType"))
                            if b:
                                fields[(n["name"], fdecl["name"])] = b
            if k == "ImplicitCastExpr" and n.get("castKind") == "IntegralCast" and ctx is not None:
                t = n.get("type", {})
                to = int_bits(t.get("desugaredQualType") or t.get("qualType"))
                inner = n.get("inner", [{}])[0]
                ti = inner.get("type", {})
                frm = int_bits(ti.get("desugaredQualType") or ti.get("qualType"))
                lit = cast.strip(inner).get("kind") in ("IntegerLiteral", "CharacterLiteral")
                mv = max_value(inner)
                fits = bool(to) and mv is not None and mv < (1 << (to - 1 if (t.get("desugaredQualType") or t.get("qualType") or "").replace("const ", "").strip() in ("int", "short", "char", "long", "int8_t", "int16_t", "int32_t", "signed char") else to))
                if to and frm and to < frm and not lit and not fits:
                    infile = cur_file[0] or ""
                    if infile.startswith(src_prefix) and infile.endswith(".c"):
                        key = (rel, ctx, frm, to)
                        narrowing[key] = narrowing.get(key, 0) + 1
            if k == "CompoundAssignOperator" and ctx is not None:
                # AUDIT2: `x op= e` computes in computeResultType and converts back to the type of x WITHOUT an ImplicitCastExpr
                # node (`unsigned consumed; consumed += decode_result.read;` truncates a size_t and was listed nowhere)
                tl = n.get("inner", [{}])[0].get("type", {})
                to = int_bits(tl.get("desugaredQualType") or tl.get("qualType"))
                tr = n.get("computeResultType", {})
                frm = int_bits(tr.get("desugaredQualType") or tr.get("qualType"))
                rhs = n.get("inner", [{}, {}])[1]
                mv = max_value(rhs)
                shrink = n.get("opcode") in (">>=", "/=", "%=", "&=")      # cannot exceed the old value of x
                if to and frm and to < frm and not shrink and not (n.get("opcode") in ("|=", "^=") and mv is not None and mv < (1 << to)):
                    infile = cur_file[0] or ""
                    if infile.startswith(src_prefix) and infile.endswith(".c"):
                        key = (rel, ctx, frm, to)
                        narrowing[key] = narrowing.get(key, 0) + 1
            if k == "MemberExpr" and ctx is not None and n.get("inner"):
                # AUDIT2: which arm of union cbor_item_metadata each function reads or writes (the plan translator drops arm names)
                bt = n["inner"][0].get("type", {})
                bq = (bt.get("desugaredQualType") or bt.get("qualType") or "").replace("const ", "").strip()
                if bq == "union cbor_item_metadata":
                    infile = cur_file[0] or ""
                    if infile.startswith(src_prefix) and infile.endswith(".c"):
                        arms.add((rel, ctx, n.get("name")))
            if k == "DeclRefExpr":
                nm = n.get("referencedDecl", {}).get("name")
                if nm in LIBC_ALLOC and n.get("referencedDecl", {}).get("kind") == "FunctionDecl":
                    infile = cur_file[0] or ""
                    libc.add((rel, ctx or "<file scope>", nm))
                if nm in LIBC_STATE and n.get("referencedDecl", {}).get("kind") == "FunctionDecl" and (cur_file[0] or "").startswith(src_prefix):
                    libc_state.add((rel, ctx or "<file scope>", nm))
        walk(tu, visit)
    # AUDIT2: the translators read ONE preprocessor configuration (clang, the cmake definitions, neither NDEBUG nor DEBUG), the
    # library is compiled by gcc with other definitions: code under `#ifdef NDEBUG` / `__clang__` / `__OPTIMIZE__` .. would be
    # translated from one branch and compiled from the other.  Inventory of the macros the conditionals of src/ test.
    ppmacros = set()
    srcroot = os.path.join(cast.REPO, "src")
    for dp, _, fns in os.walk(srcroot):
        for fn_ in fns:
            if not fn_.endswith((".c", ".h", ".h.in", ".inc")):
                continue
            try:
                lines_ = open(os.path.join(dp, fn_), errors="replace").read().replace("\\\n", " ").split("\n")
            except OSError:
                continue
            for i_, ln in enumerate(lines_):
                m_ = re.match(r"\s*#\s*(if|ifdef|ifndef|elif)\b(.*)", ln)
                if not m_:
                    continue
                ids = [x for x in re.findall(r"[A-Za-z_][A-Za-z_0-9]*", re.sub(r"/\*.*?\*/|//.*", "", m_.group(2))) if x != "defined"]
                nxt = lines_[i_ + 1] if i_ + 1 < len(lines_) else ""
                if m_.group(1) == "ifndef" and len(ids) == 1 and re.match(r"\s*#\s*define\s+%s\b" % re.escape(ids[0]), nxt):
                    continue        # include guard
                ppmacros.update(ids)
    # calls through / references to variables with static storage: the functions its initialiser names (a const table of
    # function pointers), and - unless it is const with a visible initialiser - the token `*name` (it may hold anything)
    for fn, d in funcs.items():
        for g in d["grefs"]:
            d["callees"] |= ginit.get(g, set())
            if gfp.get(g, True) and not (gconst.get(g, False) and g in ginit):
                d["callees"].add("*" + g)
    # which globals are assigned, and where
    gl = []
    ids = {}
    for (name, where, fn), is_const in sorted(globals_.items()):
        writers = sorted({a[1] for a in assigns if a[0] == name and (fn == "" or a[1] == fn)})
        gl.append((name, where, fn, bool(is_const), writers, name in escapes))
    return {"globals": gl,
            "allocsites": sorted((f, fn, p, c) for (f, fn, p), c in allocsites.items()),
            "libc": sorted(libc),
            "fields": sorted((st, f, b) for (st, f), b in fields.items()),
            "narrowing": sorted((f, fn, a, b, c) for (f, fn, a, b), c in narrowing.items()),
            "arms": sorted(arms), "ppmacros": sorted(ppmacros), "libc_state": sorted(libc_state),
            "callgraph": sorted((fn, d["file"], d["stores"], sorted(d["callees"] - {fn})) for fn, d in funcs.items())}, notes

def q(s):
    return '"%s"' % s

def emit(inv):
    lines = ["(* GENERATED by translator/inventory.py from the clang AST of every library source — do not edit *)",
             "From Coq Require Import List String NArith.", "Import ListNotations.", "Local Open Scope string_scope.",
             "(* variables with static storage duration defined in src/: (name, file, enclosing function, const?, functions that assign it, escapes?);",
             "   the last component: does a pointer to it that is not pointer-to-const leave an expression (`&v`, array decay other than for indexing)? *)",
             "Definition gen_globals : list (string * string * string * bool * list string * bool) := ["]
    lines.append(";\n".join("  (%s, %s, %s, %s, [%s], %s)" % (q(n), q(w), q(f), "true" if c else "false", "; ".join(q(x) for x in ws), "true" if e else "false")
                            for (n, w, f, c, ws, e) in inv["globals"]))
    lines.append("].")
    lines.append("(* calls through the allocator pointers: (file, function, pointer, count) *)")
    lines.append("Definition gen_allocsites : list (string * string * string * N) := [")
    lines.append(";\n".join("  (%s, %s, %s, %d%%N)" % (q(f), q(fn), q(p), c) for (f, fn, p, c) in inv["allocsites"]))
    lines.append("].")
    lines.append("(* direct references to libc allocation functions: (file, function, name) *)")
    lines.append("Definition gen_libc_refs : list (string * string * string) := [")
    lines.append(";\n".join("  (%s, %s, %s)" % (q(f), q(fn), q(n)) for (f, fn, n) in inv["libc"]))
    lines.append("].")
    lines.append("(* integer fields of the structs defined in src/: (struct, field, width in bits) *)")
    lines.append("Definition gen_fields : list (string * string * N) := [")
    lines.append(";\n".join("  (%s, %s, %d%%N)" % (q(st), q(f), b) for (st, f, b) in inv.get("fields", [])))
    lines.append("].")
    lines.append("(* implicit integer conversions to a narrower type in the .c files: (file, function, from bits, to bits, count) *)")
    lines.append("Definition gen_narrowing : list (string * string * N * N * N) := [")
    lines.append(";\n".join("  (%s, %s, %d%%N, %d%%N, %d%%N)" % (q(f), q(fn), a, b, c) for (f, fn, a, b, c) in inv.get("narrowing", [])))
    lines.append("].")
    lines.append("(* AUDIT2: macros tested by the preprocessor conditionals of src/ (include guards excluded) *)")
    lines.append("Definition gen_pp_macros : list string := [%s]." % "; ".join(q(m) for m in inv.get("ppmacros", [])))
    lines.append("(* AUDIT2: arms of union cbor_item_metadata accessed in the .c files: (file, function, arm) *)")
    lines.append("Definition gen_union_arms : list (string * string * string) := [")
    lines.append(";\n".join("  (%s, %s, %s)" % (q(f), q(fn), q(a)) for (f, fn, a) in inv.get("arms", [])))
    lines.append("].")
    lines.append("(* references to libc functions that keep or hand out static / process-wide state (gmtime, strtok, rand, setlocale, ..): (file, function, name) *)")
    lines.append("Definition gen_libc_state_refs : list (string * string * string) := [")
    lines.append(";\n".join("  (%s, %s, %s)" % (q(f), q(fn), q(n)) for (f, fn, n) in inv.get("libc_state", [])))
    lines.append("].")
    lines.append("(* call graph of the functions defined (with a body) under src/: (function, file, number of stores through memory - "
                 "`*p = ..`, `p->f = ..`, `p[i] = ..`, a global, incl. `op=` / `++` / `--`; stores to automatic variables and parameters "
                 "are not counted -, functions it names or calls; `*x` = a call through the pointer x) *)")
    lines.append("Definition gen_callgraph : list (string * string * N * list string) := [")
    lines.append(";\n".join("  (%s, %s, %d%%N, [%s])" % (q(fn), q(f), st, "; ".join(q(c) for c in cs)) for (fn, f, st, cs) in inv.get("callgraph", [])))
    lines.append("].")
    return "\n".join(lines) + "\n"
