"""Build the implementation from /repo's current working tree into a temp dir (never under /repo or /verif)."""
import json, os, shutil, subprocess, tempfile, hashlib, sys
from concurrent.futures import ThreadPoolExecutor

REPO = os.environ.get("VERIF_REPO", "/repo")
VERIF = os.path.dirname(os.path.dirname(os.path.abspath(__file__)))
GUARD = "PJK_LIBCBOR_VERIF"

FLAVOURS = {
    "rel": ["-O2", "-g", "-DNDEBUG"],
    "dbg": ["-O0", "-g", "-DDEBUG=true", "-fsanitize=address,undefined", "-fno-sanitize-recover=all", "-fno-omit-frame-pointer"],
    "O0": ["-O0", "-g", "-DNDEBUG"],
    "tsan": ["-O1", "-g", "-DNDEBUG", "-fsanitize=thread"],
}

class BuildError(Exception):
    pass

def run(cmd, **kw):
    p = subprocess.run(cmd, stdout=subprocess.PIPE, stderr=subprocess.STDOUT, text=True, **kw)
    if p.returncode != 0:
        raise BuildError("command failed: %s\n%s" % (" ".join(cmd), p.stdout[-4000:]))
    return p.stdout

class Workdir:
    """mktemp dir removed on exit"""
    def __init__(self, prefix="cbverif-"):
        self.path = tempfile.mkdtemp(prefix=prefix, dir=os.environ.get("VERIF_TMP", tempfile.gettempdir()))
    def __enter__(self):
        return self
    def __exit__(self, *a):
        shutil.rmtree(self.path, ignore_errors=True)
    def sub(self, name):
        p = os.path.join(self.path, name)
        os.makedirs(p, exist_ok=True)
        return p

def configure(wd, L=None):
    """cmake configure of /repo's working tree: yields configuration.h / cbor_export.h, the source list
    and the definitions the build uses."""
    name = "cfg" if L is None else "cfg-L%d" % L
    d = os.path.join(wd.path, name)
    if os.path.exists(os.path.join(d, "cfg.json")):
        return json.load(open(os.path.join(d, "cfg.json")))
    os.makedirs(d, exist_ok=True)
    cmd = ["cmake", "-S", REPO, "-B", d, "-DCMAKE_BUILD_TYPE=Release", "-DCMAKE_EXPORT_COMPILE_COMMANDS=ON",
           "-DSANITIZE=OFF", "-DWITH_TESTS=OFF", "-DWITH_EXAMPLES=OFF", "-DCMAKE_C_COMPILER=gcc"]
    if L is not None:
        cmd.append("-DCBOR_MAX_STACK_SIZE=%d" % L)
    run(cmd)
    cc = json.load(open(os.path.join(d, "compile_commands.json")))
    srcs, defs, incs = [], [], []
    for e in cc:
        f = e["file"]
        if not f.startswith(os.path.join(REPO, "src") + "/"):
            continue
        srcs.append(f)
        args = e.get("command", "").split()
        for a in args:
            if a.startswith("-D") and a not in defs and not a.startswith("-Dcbor_EXPORTS") and a != "-DNDEBUG":
                defs.append(a)
            if a.startswith("-I") and a not in incs:
                incs.append(a)
    if not srcs:
        raise BuildError("no sources found in compile_commands.json")
    conf = {}
    for line in open(os.path.join(d, "cbor", "configuration.h")):
        parts = line.split()
        if len(parts) >= 3 and parts[0] == "#define":
            conf[parts[1]] = " ".join(parts[2:])
    cfg = {"dir": d, "srcs": sorted(srcs), "defs": defs, "incs": incs, "conf": conf}
    json.dump(cfg, open(os.path.join(d, "cfg.json"), "w"))
    return cfg

def build_lib(wd, cfg, flavour, extra=(), tag=None, cc="gcc"):
    """compile every library source with the flavour's flags (hooks on) into a static archive"""
    name = "%s-%s" % (os.path.basename(cfg["dir"]), tag or flavour)
    d = os.path.join(wd.path, "lib-" + name)
    lib = os.path.join(d, "libcbor.a")
    if os.path.exists(lib):
        return lib
    os.makedirs(d, exist_ok=True)
    flags = FLAVOURS[flavour] + ["-D" + GUARD, "-std=c99", "-w"] + cfg["defs"] + cfg["incs"] + list(extra)
    def one(src):
        obj = os.path.join(d, os.path.relpath(src, REPO).replace("/", "_")[:-2] + ".o")
        run([cc, "-c", src, "-o", obj] + flags)
        return obj
    with ThreadPoolExecutor(16) as ex:
        objs = list(ex.map(one, cfg["srcs"]))
    run(["ar", "rcs", lib] + objs)
    return lib

def build_hx(wd, cfg, flavour, lib=None, extra=(), tag=None, cc="gcc"):
    lib = lib or build_lib(wd, cfg, flavour, extra=extra, tag=tag, cc=cc)
    exe = os.path.join(os.path.dirname(lib), "hx")
    if os.path.exists(exe):
        return exe
    flags = FLAVOURS[flavour] + ["-D" + GUARD, "-std=gnu11", "-w"] + cfg["defs"] + cfg["incs"] + list(extra)
    run([cc, os.path.join(VERIF, "harness", "hx.c"), "-I" + os.path.join(VERIF, "harness"), "-o", exe] + flags + [lib, "-lm", "-lpthread"])
    return exe
