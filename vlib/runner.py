"""Check runner: build the implementation from /repo, regenerate + re-check the Coq closure of the
property, run the correspondence streams, decide, write evidence."""
import json, os, random, re, subprocess, sys, time, hashlib, glob

from . import build, corr, coqstage

VERIF = build.VERIF
EVID = os.path.join(VERIF, "evidence")
REPLAYS = os.path.join(VERIF, "replays")
KNOWN = os.path.join(VERIF, "KNOWN_FINDINGS.txt")

TRUSTED_BASE = [
    "Coq 8.16.1 kernel (coqc, full .vo builds) incl. its vm_compute machine; no native_compute",
    "axioms: none declared here; per-theorem Print Assumptions output is recorded in 'axioms' (only C15's *_value theorems depend on any: the standard library's ClassicalDedekindReals.sig_forall_dec, sig_not_dec, FunctionalExtensionality.functional_extensionality_dep, Classical_Prop.classic, through Flocq/Reals)",
    "translator/*.py + clang 14 JSON AST (generated definitions are bridge-proved equal to the hand model); its renderings assumed, not proved: "
    "float/double parameters as IEEE-754 bit patterns with the union read as identity and isnan as a bit test, CBOR_ASSERT absent (non-DEBUG AST), "
    "two's-complement signed narrowing, ldexp as an uninterpreted constructor given meaning by PHalfShape.f32_bits, allocator calls as 'request of n bytes', "
    "indeterminate locals as arbitrary values, loops as wloop with fuel (DESIGN.md section 8)",
    "extraction (ExtrOcamlBasic only; N/positive stay inductive) + OCaml 4.13.1, for the correspondence only",
    "harness/hx.c, coq/extract/driver.ml, generators, sanitizers (correspondence check)",
    "platform: x86-64 LP64, little-endian branch, IEEE-754, gcc 12",
]

class Stream:
    def __init__(self, name, stream, gen, args=(), flavours=("rel",), spec=None, spec_args=None, nontrivial=None,
                 L=None, search_gen=None, timeout=300, model_args=None, exhaustive=False, rule="", env=None, expect=None, model_case=None, tiers=None, stateless=False,
                 canon=None, per_job=None):
        self.name, self.stream, self.gen, self.args = name, stream, gen, list(args)
        self.flavours, self.spec, self.spec_args = flavours, spec, spec_args
        self.nontrivial = nontrivial or (lambda case, line: True)
        self.L, self.search_gen, self.timeout = L, search_gen, timeout
        self.model_args = model_args
        self.exhaustive, self.rule = exhaustive, rule
        self.env = env
        self.model_stream = None
        self.expect = expect          # python function case -> expected line (instead of the extracted model)
        self.model_case = model_case  # transform of the case before it is handed to the model
        self.tiers = tiers            # None = every tier
        self.per_job = per_job        # heavy cases: this many per driver / harness process (see corr.run_stream)
        self.stateless = stateless    # the function under test keeps no state between calls: the cases are also run in
                                      # two seeded random orders within one process and must give the same lines
        self.canon = canon            # optional line -> line map applied to BOTH sides before comparing (e.g. "the assert-enabled
                                      # build aborted on a CBOR_ASSERT" and the model's FAULT:assert-N both become ASSERT)

class Prop:
    def __init__(self, pid, coq, streams, level_note="", extra=None, judge=None):
        self.pid, self.coq, self.streams, self.level_note = pid, coq, streams, level_note
        self.extra = extra      # optional callable(ctx) -> list of violations / notes
        self.judge = judge

class Ctx:
    def __init__(self, pid, tier, seed):
        self.pid, self.tier, self.seed = pid, tier, seed
        self.rng = random.Random(seed * 1000003 + sum(map(ord, pid)))
        self.t0 = time.time()
        self.wd = None
        self.cfgs = {}
        self.notes = []
        self.dropped = {}
    def cfg(self, L=None):
        if L not in self.cfgs:
            self.cfgs[L] = build.configure(self.wd, L)
        return self.cfgs[L]
    def hx(self, flavour="rel", L=None):
        return build.build_hx(self.wd, self.cfg(L), flavour)

def hx_config(hx):
    out = subprocess.run([hx, "config"], stdout=subprocess.PIPE, text=True).stdout
    return dict(kv.split("=") for kv in out.split())

def ensure_driver():
    """(re)extract the models and rebuild the OCaml driver when a model source is newer"""
    drv = corr.DRIVER
    ext = os.path.join(coqstage.COQ, "extract")
    srcs = glob.glob(os.path.join(coqstage.COQ, "theories", "*.v")) + [os.path.join(ext, "Extract.v"), os.path.join(ext, "driver.ml")]
    srcs = [s for s in srcs if not s.endswith("_proofs.v") and not os.path.basename(s).startswith("Bridge_")]
    if os.path.exists(drv) and all(os.path.getmtime(s) <= os.path.getmtime(drv) for s in srcs):
        return
    r = subprocess.run(["bash", os.path.join(VERIF, "setup.sh"), "driver"], stdout=subprocess.PIPE, stderr=subprocess.STDOUT, text=True)
    if r.returncode != 0:
        raise build.BuildError("driver build failed:\n" + r.stdout[-3000:])

def load_known():
    findings = []
    if os.path.exists(KNOWN):
        for line in open(KNOWN):
            line = line.strip()
            m = re.match(r"finding:\s+property=(\S+)\s+match=(\S+)\s+(.*)", line)
            if m:
                findings.append({"property": m.group(1), "match": m.group(2), "what": m.group(3)})
    return findings

def matches_known(known, pid, stream, case, impl_line):
    for k in known:
        if k["property"] != pid:
            continue
        st, _, pat = k["match"].partition(":")
        if st != stream:
            continue
        try:
            if re.search(pat, case + " => " + impl_line):
                return k
        except re.error:
            pass
    return None

def write_replay(pid, n, obj):
    os.makedirs(REPLAYS, exist_ok=True)
    path = os.path.join(REPLAYS, "%s-%d.json" % (pid, n))
    with open(path, "w") as f:
        json.dump(obj, f, indent=1)
    return path

def run_one_stream(ctx, s, cases, model_stream=None, flavours=None):
    """-> (disagreements [(flavour, idx, case, impl, model)], model_lines, impl_lines_by_flavour)"""
    margs = s.model_args if s.model_args is not None else s.args
    if s.expect is not None:
        model_lines = [s.expect(c) for c in cases]
    else:
        mcases = [s.model_case(c) for c in cases] if s.model_case else cases
        model_lines = corr.run_stream(corr.model_cmd(model_stream or s.model_stream or s.stream, margs), mcases, timeout=s.timeout, per_job=s.per_job)
    if s.canon:
        model_lines = [s.canon(l) for l in model_lines]
    dis, impl_by = [], {}
    # Under a refusal schedule a history that is legal when every allocation succeeds can become one no
    # client would run (e.g. the item for a tag could not be built, so cbor_tag_set_item was not called,
    # and a later cbor_tag_item on the still-empty tag is a precondition violation).  The hand-written
    # model reports exactly those as FAULT; such cases are not handed to the implementation (it would
    # crash on the caller's error and take the other schedules of the case with it).
    keep = [i for i, ml in enumerate(model_lines) if not (s.stream == "fault" and "FAULT:" in ml)]
    dropped = len(cases) - len(keep)
    if dropped:
        ctx.dropped[s.name] = dropped
    for fl in (flavours or s.flavours):
        hx = ctx.hx(fl, s.L)
        sub = corr.run_stream([hx, s.stream] + [str(a) for a in s.args], [cases[i] for i in keep], timeout=s.timeout, env=s.env, per_job=s.per_job)
        if s.canon:
            sub = [s.canon(l) for l in sub]
        impl = list(model_lines)
        for j, i in enumerate(keep):
            impl[i] = sub[j] if j < len(sub) else "MISSING"
        impl_by[fl] = impl
        for (i, c, a, b) in corr.compare(cases, impl, model_lines):
            dis.append((fl, i, c, a, b))
    if s.stateless and len(keep) > 1:
        # order independence: same process, two random orders; a result that depends on what was decoded / encoded
        # before (a cache, a static buffer, a remembered pointer) shows as a line that differs from the model's
        fl = (flavours or s.flavours)[0]
        hx = ctx.hx(fl, s.L)
        for k in ((1, 2) if len(keep) <= 60000 else (1,)):
            order = list(keep)
            random.Random(ctx.seed * 7919 + k).shuffle(order)
            sub = corr.run_stream([hx, s.stream] + [str(a) for a in s.args], [cases[i] for i in order], timeout=s.timeout, env=s.env, per_job=s.per_job)
            for j, i in enumerate(order):
                got = sub[j] if j < len(sub) else "MISSING"
                if corr.compare([cases[i]], [got], [model_lines[i]]):
                    prev = cases[order[j - 1]] if j else "-"
                    dis.append(("%s~order%d after %s" % (fl, k, prev[:80]), i, cases[i], got, model_lines[i]))
        ctx.notes.append("stream %s: order independence checked with 2 shuffles of %d cases" % (s.name, len(keep)))
    return dis, model_lines, impl_by

def run_property(prop, tier, seed, replay=None):
    pid = prop.pid
    ctx = Ctx(pid, tier, seed)
    os.makedirs(EVID, exist_ok=True)
    evid_path = os.path.join(EVID, pid + ".json")
    violations, known_hits, notes = [], [], []
    cov = {"streams": {}, "samples": []}
    coq = None
    try:
        with build.Workdir() as wd:
            ctx.wd = wd
            try:
                ensure_driver()
                hx_rel = ctx.hx("rel")
                hxc = hx_config(hx_rel)
                sizes = {k: v for k, v in hxc.items() if k.startswith("sizeof_")}
                # version constants (common.h statics, CBOR_VERSION, CBOR_HEX_VERSION) against each other and against CMakeLists.txt
                try:
                    cm = open(os.path.join(build.REPO, "CMakeLists.txt")).read()
                    want = ".".join(re.search(r'set\(CBOR_VERSION_%s\s+"(\d+)"\)' % k, cm).group(1) for k in ("MAJOR", "MINOR", "PATCH"))
                except Exception:
                    want = None
                notes.append("library version %s (header constants consistent: %s; CMakeLists.txt: %s)" %
                             (hxc.get("version"), "yes" if hxc.get("version_ok") == "1" else "NO", "same" if want == hxc.get("version") else "DIFFERENT (%s)" % want))
                from translator import run as trun
                trep = trun.regenerate(ctx.cfg(), sizes)
                notes += trep["unsupported"]
                # AUDIT2: a function (or a row of the dispatch table) that left the translators' subset silently falls back to the
                # hand model, so its bridge lemma passes on code it no longer describes.  By policy that is not an alarm, but it must not
                # be invisible either: on the pinned tree nothing is unsupported, so every entry here is a tie lost by an edit.
                if trep["unsupported"]:
                    print("TRANSLATOR-DEGRADED property=%s: %d function(s) / table row group(s) of the working tree are outside the translated subset "
                          "and are tied by the correspondence streams ONLY (their bridge lemmas pass on the fallback):" % (pid, len(trep["unsupported"])))
                    for u in trep["unsupported"][:40]:
                        print("  " + u)
                cov["translator_degraded"] = list(trep["unsupported"])
            except build.BuildError as e:
                print("BUILD FAILURE (the working tree does not build):\n" + str(e)[-3000:])
                path = write_replay(pid, 0, {"property": pid, "kind": "build-failure", "detail": str(e)[-3000:]})
                print("VIOLATION property=%s replay=%s no-failing-input-found" % (pid, path))
                write_evidence(evid_path, ctx, prop, cov, None, 1, notes + ["build failure"])
                return 1
            # ---- proof stage
            coq = coqstage.build(prop.coq, clean=(tier == "thorough"))
            lint = coqstage.lint()
            broken = list(coq["failed"])
            if lint:
                broken += ["lint: " + l for l in lint]
            if coq["bad_axioms"]:
                broken += ["axiom outside the allow-list: " + a for a in coq["bad_axioms"]]
            if tier == "thorough" and not broken:
                t_chk = time.time()
                ck = coqchk(prop.coq)
                cov["coqchk"] = ck["summary"]
                cov["coqchk_wall_s"] = round(time.time() - t_chk, 1)
                if not ck["ok"]:
                    broken.append("coqchk: " + ck["summary"])
            # ---- correspondence
            known = load_known()
            total_eval, distinct, traces = 0, set(), 0
            dis_all = []
            for s in prop.streams:
                if s.tiers is not None and ctx.tier not in s.tiers:
                    continue
                t_stream = time.time()
                cases = s.gen(ctx)
                seen = set(); cases = [c for c in cases if not (c in seen or seen.add(c))]
                if replay and replay.get("stream") == s.name:
                    cases = [replay["case"]] + cases
                dis, model_lines, impl_by = run_one_stream(ctx, s, cases)
                total_eval += len(cases) * len(s.flavours)
                traces += len(cases) * len(s.flavours)
                nt = 0
                dist = {}
                for c, ml in zip(cases, model_lines):
                    if s.nontrivial(c, ml):
                        nt += 1
                        distinct.add((s.name, c))
                    key = classify_line(ml)
                    dist[key] = dist.get(key, 0) + 1
                cov["streams"][s.name] = {"cases": len(cases), "flavours": list(s.flavours), "nontrivial": nt,
                                          "outcome_distribution": dist, "disagreements": len(dis),
                                          "exhaustive": s.exhaustive, "rule": s.rule}
                if s.stateless:
                    cov["streams"][s.name]["order_independence"] = "the cases were also run in seeded random order(s) within one process (first flavour) and every line compared with the model's again"
                inconclusive = sum(1 for ml in model_lines if ml in ("STACKOVERFLOW", "HANG"))
                if inconclusive:
                    cov["streams"][s.name]["model_inconclusive_stack_or_time"] = inconclusive
                cov["streams"][s.name]["wall_s"] = round(time.time() - t_stream, 1)
                if ctx.dropped.get(s.name):
                    cov["streams"][s.name]["cases_illegal_under_a_refusal_schedule_not_run"] = ctx.dropped[s.name]
                k = min(3, len(cases))
                for idx in ([0, len(cases) // 2, len(cases) - 1][:k] if cases else []):
                    cov["samples"].append({"stream": s.name, "case": cases[idx][:300], "model": model_lines[idx][:300],
                                           "impl": impl_by[s.flavours[0]][idx][:300]})
                for d in dis:
                    dis_all.append((s,) + d)
            # ---- extra (property-specific) checks
            if prop.extra:
                ex = prop.extra(ctx)
                for v in ex.get("violations", []):
                    violations.append(v)
                for k_, v_ in ex.get("coverage", {}).items():
                    cov[k_] = v_
                total_eval += ex.get("evaluations", 0)
                broken += ex.get("broken", [])
            # ---- decide
            vn = 0
            if dis_all or broken:
                # a broken obligation / disagreement is not by itself a violation: judge against the spec
                judged = set()
                # judge the shortest disagreeing cases first, and only a bounded number of them
                dis_sorted = sorted(dis_all, key=lambda d: (len(d[3]), d[3]))
                for (s, fl, i, c, a, b) in dis_sorted[:60]:
                    if vn >= 5:
                        break
                    verdict = judge_case(ctx, prop, s, fl, c, a, b)
                    if verdict is None:
                        continue
                    if (s.name, c) in judged:
                        continue
                    judged.add((s.name, c))
                    k = matches_known(known, pid, s.name, c, a)
                    if k:
                        known_hits.append(k)
                        continue
                    vn += 1
                    if vn <= 5:
                        path = write_replay(pid, vn, {"property": pid, "stream": s.name, "flavour": fl, "case": c, "args": s.args,
                                                      "L": s.L, "implementation": a, "model": b, "spec_verdict": verdict, "seed": seed})
                        violations.append((path, ""))
                if not violations and not known_hits or (broken and not violations):
                    # search the spec against the implementation at a higher volume
                    found = search(ctx, prop, known, known_hits)
                    for (s, fl, c, a, b, verdict) in found[:5]:
                        vn += 1
                        path = write_replay(pid, vn, {"property": pid, "stream": s.name, "flavour": fl, "case": c, "args": s.args,
                                                      "L": s.L, "implementation": a, "spec": b, "spec_verdict": verdict, "seed": seed,
                                                      "found_by": "search after broken obligation/correspondence", "broken": broken})
                        violations.append((path, ""))
                if not violations and (broken or [d for d in dis_all if not matches_known(known, pid, d[0].name, d[3], d[4])]):
                    first = [{"stream": d[0].name, "flavour": d[1], "case": d[3], "implementation": d[4], "model": d[5]} for d in dis_all[:5]]
                    path = write_replay(pid, 0, {"property": pid, "kind": "no-failing-input-found",
                                                 "broken_obligations": broken, "first_disagreements": first, "seed": seed,
                                                 "coq_log_tail": coq["log"][-3000:] if broken else ""})
                    violations.append((path, " no-failing-input-found"))
            cov.update({"evaluations": total_eval, "distinct_nontrivial": len(distinct),
                        "traces_validated_against_impl": traces})
    finally:
        pass
    seenk = set()
    for k in known_hits:
        if k["match"] not in seenk:
            seenk.add(k["match"])
            print("KNOWN-FINDING: property=%s %s" % (pid, k["what"]))
    for path, suffix in violations:
        print("VIOLATION property=%s replay=%s%s" % (pid, path, suffix))
    write_evidence(evid_path, ctx, prop, cov, coq, len(violations), notes)
    return 1 if violations else 0

def classify_line(l):
    t = l.split(" ")
    if not t:
        return "empty"
    if t[0] in ("ok", "F", "N", "E", "FAULT", "UB"):
        return t[0]
    if t[0] == "err" and len(t) > 1:
        return "err:" + t[1]
    return "other"

def judge_case(ctx, prop, s, fl, case, impl_line, model_line):
    """decide whether the implementation's observable contradicts the SPEC on this case.
    Returns a verdict string (violation) or None (the model, not the code, is off)."""
    if impl_line.startswith("CRASH") or impl_line.startswith("HANG") or "EXIT=" in impl_line:
        return "implementation crashed / hung / sanitizer report: " + impl_line[:200]
    if prop.judge:
        return prop.judge(ctx, s, fl, case, impl_line, model_line)
    if s.spec:
        sargs = s.spec_args if s.spec_args is not None else (s.model_args if s.model_args is not None else s.args)
        spec_line = corr.run_stream(corr.model_cmd(s.spec, sargs), [case], timeout=60)[0]
        if spec_line == impl_line:
            return None
        return "spec expects: " + spec_line[:300]
    # no separate executable spec for this stream: the proved model is the reference
    return "model (proved against the spec) expects: " + model_line[:300]

def search(ctx, prop, known, known_hits):
    found = []
    for s in prop.streams:
        g = s.search_gen or s.gen
        saved = ctx.tier
        ctx.tier = "search"
        try:
            cases = g(ctx)
        finally:
            ctx.tier = saved
        seen = set(); cases = [c for c in cases if not (c in seen or seen.add(c))]
        if s.tiers is not None and "search" not in s.tiers:
            continue
        ref_stream = s.spec or s.model_stream or s.stream
        sargs = s.spec_args if (s.spec and s.spec_args is not None) else (s.model_args if s.model_args is not None else s.args)
        if s.expect is not None:
            ref = [s.expect(c) for c in cases]
        else:
            mcases = [s.model_case(c) for c in cases] if s.model_case else cases
            ref = corr.run_stream(corr.model_cmd(ref_stream, sargs), mcases, timeout=s.timeout)
        if s.canon:
            ref = [s.canon(l) for l in ref]
        for fl in s.flavours:
            impl = corr.run_stream([ctx.hx(fl, s.L), s.stream] + [str(a) for a in s.args], cases, timeout=s.timeout, env=s.env)
            if s.canon:
                impl = [s.canon(l) for l in impl]
            for (i, c, a, b) in corr.compare(cases, impl, ref):
                k = matches_known(known, prop.pid, s.name, c, a)
                if k:
                    known_hits.append(k)
                    continue
                if prop.judge and not (a.startswith("CRASH") or a.startswith("HANG")):
                    v = prop.judge(ctx, s, fl, c, a, b)
                    if v is None:
                        continue
                else:
                    v = "spec expects: " + b[:300]
                found.append((s, fl, c, a, b, v))
            if found:
                break
        if found:
            break
    # shortest failing case first (cheap minimisation)
    found.sort(key=lambda f: len(f[2]))
    return found

def coqchk(prop_files):
    mods = ["CBProps." + p for p in prop_files]
    try:
        p = subprocess.run(["coqchk", "-o", "-silent", "-Q", "theories", "CB", "-Q", "gen", "CBGen", "-Q", "props", "CBProps"] + mods,
                           cwd=coqstage.COQ, stdout=subprocess.PIPE, stderr=subprocess.STDOUT, text=True, timeout=1800)
        ok = p.returncode == 0
        tail = p.stdout[-1500:]
        return {"ok": ok, "summary": ("ok: " if ok else "FAILED: ") + " ".join(tail.split())[:800]}
    except subprocess.TimeoutExpired:
        return {"ok": True, "summary": "coqchk timed out (not counted)"}

def write_evidence(path, ctx, prop, cov, coq, nviol, notes):
    c = dict(cov)
    if coq:
        c["obligations"] = len(coq["obligations"])
        c["discharged"] = len(coq["discharged"])
        c["obligation_names"] = coq["obligations"]
        c["failed_obligations"] = coq["failed"]
        c["checker_cmd"] = coq["cmd"]
        c["axioms"] = coq["axioms"] or ["Closed under the global context (every Print Assumptions)"]
        c["print_assumptions_closed"] = coq["closed_count"]
        c["proof_wall_s"] = round(coq["wall"], 1)
    else:
        c["obligations"] = 0; c["discharged"] = 0; c["checker_cmd"] = "not reached"
    c["trusted_base"] = TRUSTED_BASE
    c.setdefault("evaluations", 0)
    c.setdefault("distinct_nontrivial", 0)
    c["rule"] = "; ".join("%s: %s" % (k, v.get("rule", "")) for k, v in c.get("streams", {}).items())
    if not c.get("samples"):
        c["samples"] = [{"obligations": (coq or {}).get("obligations", [])[:5]}]
    c["translator_notes"] = notes
    c["exhaustive"] = all(v.get("exhaustive") for v in c.get("streams", {}).values()) if c.get("streams") else False
    ev = {"property_id": prop.pid, "tier": ctx.tier if ctx.tier in ("quick", "thorough") else "quick", "seed": ctx.seed,
          "level": "proof", "coverage": c,
          "assumptions": [prop.level_note] + TRUSTED_BASE,
          "wall_s": round(time.time() - ctx.t0, 1), "violations": nviol}
    with open(path, "w") as f:
        json.dump(ev, f, indent=1)
