"""Spec-side judges: decide whether an implementation line contradicts the SPEC for a case
(used when the model and the implementation disagree, or a proof obligation is broken)."""
from . import corr

def dec1_judge(ctx, s, fl, case, impl, model):
    spec = corr.run_stream(corr.model_cmd("dec1_spec"), [case], timeout=60)[0]
    a, b = impl.split(" "), spec.split(" ")
    if "ALLOCS" in impl:
        return "the streaming decoder made allocator requests"
    if a[0] != b[0]:
        return "spec expects: " + spec
    if a[0] == "F":
        return None if a[:4] == b[:4] and len(a) == 4 else "spec expects: " + spec
    if a[0] == "E":
        return None if a[1:4] == ["0", "0", "-"] else "ERROR must have read 0 and no callback; got: " + impl
    # NEDATA: read 0, no callback, lo <= required <= hi
    lo, hi = b[2].split("..")
    try:
        ok = a[1] == "0" and a[3] == "-" and int(lo) <= int(a[2]) <= int(hi)
    except ValueError:
        ok = False
    return None if ok else "spec expects NEDATA with read 0, no callback and required in %s..%s; got: %s" % (lo, hi, impl)

def ser_judge(ctx, s, fl, case, impl, model):
    spec = corr.run_stream(corr.model_cmd("ser_spec"), [case], timeout=60)[0]
    a, b = impl.split(" "), spec.split(" ")
    if len(a) != len(b) or a[0] != b[0] or a[1] != b[1]:
        return "spec expects: " + spec[:300]
    enc = b[1].split(":")[2]
    enc = "" if enc == "-" else enc
    for x, y in zip(a[2:], b[2:]):
        if x == y:
            continue
        xn, xr, ximg = x.split(":", 2)
        yn, yr, yimg = y.split(":", 2)
        if yimg != "*":
            return "at n=%s spec expects %s, got %s" % (yn, y, x)
        # failing size: return 0, only a prefix of the encoding stored, nothing else touched
        stored = ximg.rstrip("-")
        if len(stored) % 2:
            stored += "-"
        if xr != "0" or not enc.startswith(stored.replace("-", "")) or "-" in stored or len(ximg) != 2 * int(xn):
            return "at n=%s (too small) spec expects return 0 and only a prefix of the encoding stored; got %s" % (xn, x)
    return None

def mem_judge(ctx, s, fl, case, impl, model):
    f, a, b = case.split()
    a, b = int(a), int(b)
    M = 1 << 64
    if f == "hb":
        exp = str(a.bit_length())
    elif f == "mul":
        # the guard must be sound (never yes when the product overflows); it is allowed to be conservative as the model
        if impl == "1" and a * b >= M:
            return "guard says a*b is safe but %d*%d needs more than 64 bits" % (a, b)
        return None if impl == model else "model (proved sound) expects " + model
    elif f == "add":
        exp = "1" if a + b < M else "0"
    elif f == "sadd":
        exp = "0" if a == 0 or b == 0 or a + b >= M else str(a + b)
    elif f == "hdr":
        exp = "1" if a <= 23 else "2" if a <= 255 else "3" if a <= 65535 else "5" if a <= 2 ** 32 - 1 else "9"
    elif f == "allocm":
        if impl not in ("none", str(a * b)):
            return "a request for %d x %d bytes must ask for exactly %d or not be made; got %s" % (a, b, a * b, impl)
        return None if impl == model else "model expects " + model
    elif f == "grow":
        new = max(1, 2 * a)
        if impl not in ("none", str(new)):
            return "growth from capacity %d must request capacity %d or fail; got %s" % (a, new, impl)
        return None if impl == model else "model expects " + model
    else:
        return "model expects " + model
    return None if impl == exp else "arithmetic expects " + exp
