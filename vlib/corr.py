"""Correspondence runs: the same case file through the C harness (real code) and the extracted
Coq model; line-by-line comparison.  A crash / sanitizer report / hang of the harness on a case is
recorded as that case's result."""
import os, subprocess, tempfile, resource
from concurrent.futures import ThreadPoolExecutor

VERIF = os.path.dirname(os.path.dirname(os.path.abspath(__file__)))
DRIVER = os.path.join(VERIF, "coq", "extract", "driver")

ASAN_ENV = {"ASAN_OPTIONS": "detect_leaks=1:abort_on_error=0:exitcode=66:allocator_may_return_null=1:max_allocation_size_mb=4096",
            "UBSAN_OPTIONS": "print_stacktrace=1:halt_on_error=1:exitcode=67",
            "TSAN_OPTIONS": "exitcode=68:halt_on_error=0"}

def _big_stack():
    """the extracted model recurses non-tail over long lists: give the child the largest stack allowed"""
    try:
        soft, hard = resource.getrlimit(resource.RLIMIT_STACK)
        resource.setrlimit(resource.RLIMIT_STACK, (hard, hard))
    except Exception:
        pass

def _client_stack():
    """the C harness runs like an ordinary client: the usual 8 MiB main-thread stack, whatever the caller's limit is (a
    recursive walker that puts a large buffer into every frame must show at the deepest nesting the decoder accepts)"""
    try:
        soft, hard = resource.getrlimit(resource.RLIMIT_STACK)
        want = 8 << 20
        if hard != resource.RLIM_INFINITY and hard < want:
            want = hard
        resource.setrlimit(resource.RLIMIT_STACK, (want, hard))
    except Exception:
        pass

def _run_lines(cmd, cases, timeout, env=None):
    """run cmd over the cases; returns list of result lines, one per case; crashes are isolated"""
    out = []
    i = 0
    e = dict(os.environ)
    e.update(ASAN_ENV)
    if env:
        e.update(env)
    while i < len(cases):
        inp = "\n".join(cases[i:]) + "\n"
        try:
            p = subprocess.run(cmd, input=inp, stdout=subprocess.PIPE, stderr=subprocess.PIPE, text=True,
                               timeout=timeout, env=e, errors="replace", preexec_fn=(_big_stack if cmd and cmd[0] == DRIVER else _client_stack))
            lines = p.stdout.split("\n")
            if lines and lines[-1] == "":
                lines.pop()
            rc, err = p.returncode, p.stderr
            timed_out = False
        except subprocess.TimeoutExpired as t:
            so = t.stdout or b""
            if isinstance(so, bytes):
                so = so.decode("utf-8", "replace")
            lines = so.split("\n")
            if lines and lines[-1] == "":
                lines.pop()
            rc, err, timed_out = -1, "", True
        n_left = len(cases) - i
        if rc == 0 and len(lines) == n_left:
            out += lines
            break
        # the process died (or hung) while working on case number len(lines) (a partial last line is dropped)
        done = min(len(lines), n_left)
        if rc != 0 and done == n_left:
            # finished all cases but exited non-zero (e.g. leak report at exit): attribute to the run
            out += lines[:n_left - 1]
            out.append(lines[n_left - 1] + " EXIT=%d %s" % (rc, _summ(err)))
            break
        out += lines[:done]
        if timed_out:
            out.append("HANG")
        else:
            out.append("CRASH rc=%d %s" % (rc, _summ(err)))
        i += done + 1
    return out

def _summ(err):
    for l in err.split("\n"):
        if "ERROR: AddressSanitizer" in l or "runtime error" in l or "ERROR: LeakSanitizer" in l or "Assertion" in l or "WARNING: ThreadSanitizer" in l:
            return l.strip()[:300]
    ls = [l for l in err.strip().split("\n") if l.strip()]
    return (ls[0][:300] if ls else "")

def run_stream(cmd, cases, timeout=120, jobs=16, env=None, per_job=None):
    """parallel over chunks; order preserved.  per_job (heavy cases, e.g. the soak histories): chunks of that many
    cases handed out dynamically to `jobs` workers instead of one contiguous slice of >= 200 cases per worker"""
    if not cases:
        return []
    if per_job:
        chunks = [cases[k:k + per_job] for k in range(0, len(cases), per_job)]
        n = max(1, min(jobs, len(chunks)))
    else:
        n = max(1, min(jobs, (len(cases) + 199) // 200))
        size = (len(cases) + n - 1) // n
        chunks = [cases[k:k + size] for k in range(0, len(cases), size)]
    with ThreadPoolExecutor(n) as ex:
        res = list(ex.map(lambda c: _run_lines(cmd, c, timeout, env), chunks))
    out = []
    for r in res:
        out += r
    return out

def compare(cases, impl_lines, model_lines):
    """-> list of (index, case, impl, model) where they differ"""
    dis = []
    for i, c in enumerate(cases):
        a = impl_lines[i] if i < len(impl_lines) else "MISSING"
        b = model_lines[i] if i < len(model_lines) else "MISSING"
        if b == "STACKOVERFLOW" or b == "HANG":
            continue   # the extracted model ran out of native stack / of its time budget on this case: inconclusive, not a disagreement
        if a != b:
            dis.append((i, c, a, b))
    return dis

def model_cmd(stream, args=()):
    return [DRIVER, stream] + [str(a) for a in args]
