"""Registry: per property, the Coq statement files, the correspondence streams and their generators."""
from .runner import Prop, Stream
from gen import utf8gen

CAP = 1 << 20
PROPS = {}

def reg(p):
    PROPS[p.pid] = p

reg(Prop("C16", ["Properties_C16"], [
    Stream("utf8", "utf8", utf8gen.utf8_cases, flavours=("rel", "dbg"), spec="utf8_spec",
           nontrivial=lambda c, l: c != "-" and not l.startswith("cp=0 "),
           rule="all byte strings of length 0-2 exhaustively, length 3-4 over UTF-8 byte-class representatives, random valid scalars with single injected faults; three code paths (set_handle, build_stringn, cbor_load); non-trivial = non-empty and valid (count > 0)"),
    Stream("dfa", "dfa", utf8gen.dfa_cases, flavours=("rel",), exhaustive=True,
           nontrivial=lambda c, l: l != "1",
           rule="every (live DFA state, byte) pair of _cbor_unicode_decode; non-trivial = not the reject state"),
], level_note="Theorem over all byte strings about the model of unicode.c with the table regenerated from the source; model tied to the compiled code by the utf8/dfa streams"))
