"""Registry: per property, the Coq statement files, the correspondence streams and their generators."""
from .runner import Prop, Stream
from . import judges
from gen import utf8gen, cborgen, streamgen, treegen, histgen

CAP = 1 << 20
LDEF = 2048
PROPS = {}

def reg(p):
    PROPS[p.pid] = p

def not_trivial_load(c, l):
    return c != "-" and (l.startswith("ok") or l.startswith("err"))

def encdec_cases(ctx):
    out = []
    for name, bits in streamgen.ENC_INT.items():
        for v in streamgen.enc_values(name, bits, ctx):
            out.append("%s %d" % (name, v))
    for name in streamgen.ENC_NOARG:
        out.append("%s 0" % name)
    out += ["bool 0", "bool 1"]
    for b in streamgen.float32_patterns(ctx)[:: (5 if ctx.tier == "quick" else 1)]:
        out.append("single 0x%x" % b)
    for h in range(0, 65536, 1 if ctx.tier != "quick" else 3):
        out.append("half 0x%x" % treegen.half_to_f32bits(h))
    for b in streamgen.float64_patterns(ctx)[:: (5 if ctx.tier == "quick" else 1)]:
        out.append("double 0x%x" % b)
    return out

def half_tree_cases(ctx):
    """every half pattern as an item: serialize must reproduce the two bytes (NaN -> 7e00)"""
    return ["(f16 %x)" % treegen.half_to_f32bits(h) for h in range(65536)]

LOAD_RULE = ("all byte strings of length 0-2 exhaustively, length 3 over initial-byte class representatives; a grammar-directed "
             "enumeration (major type x argument width x definite/indefinite x nesting position) with all single-edit neighbours "
             "(truncate at every offset, overwrite heads by reserved/other initial bytes, insert/delete break, inflate/deflate counts); "
             "the chunked-string exception family; random trees; declared sizes near the allocator cap and 2^64; "
             "non-trivial = non-empty input")

load_stream = lambda name="load", flavours=("rel", "dbg"): Stream(
    name, "load", cborgen.load_cases, args=(LDEF, CAP), flavours=flavours, spec="load_spec",
    nontrivial=not_trivial_load, rule=LOAD_RULE, timeout=600)

reg(Prop("C16", ["Properties_C16"], [
    Stream("utf8", "utf8", utf8gen.utf8_cases, stateless=True, flavours=("rel", "dbg"), spec="utf8_spec",
           nontrivial=lambda c, l: c != "-" and not l.startswith("cp=0 "),
           rule="all byte strings of length 0-2 exhaustively, length 3-4 over UTF-8 byte-class representatives, random valid scalars with single injected faults; three code paths (set_handle, build_stringn, cbor_load); non-trivial = non-empty and valid (count > 0)"),
    Stream("dfa", "dfa", utf8gen.dfa_cases, flavours=("rel",), exhaustive=True,
           nontrivial=lambda c, l: l != "1",
           rule="every (live DFA state, byte) pair of _cbor_unicode_decode; non-trivial = not the reject state"),
], level_note="Theorem over all byte strings about the model of unicode.c with the table regenerated from the source; model tied to the compiled code by the utf8/dfa streams"))

reg(Prop("C08", ["Properties_C08"], [
    Stream("dec1", "dec1", streamgen.dec1_cases, stateless=True, flavours=("rel", "dbg"),
           nontrivial=lambda c, l: c != "-",
           rule="every initial byte x every buffer length 0..full+1; 1-byte arguments exhaustive, 2-byte exhaustive for halves / strided for ints, boundary+random 4/8-byte arguments incl. declared string lengths up to 2^64-1; exactly-sized heap blocks; a recording callback table (exactly one callback or none); every initial byte's smallest complete head followed by each of the 256 possible next bytes and by itself (a FINISHED result may not depend on bytes beyond read); non-trivial = non-empty buffer"),
], judge=judges.dec1_judge,
   level_note="Theorems about the model of streaming.c (dispatch table regenerated from the switch on every run, bridge lemma); model tied to the compiled code by the dec1 stream in release and ASan/UBSan builds"))

reg(Prop("C09", ["Properties_C09"], [
    Stream("frag", "frag", streamgen.frag_cases, stateless=True, flavours=("rel", "dbg"),
           nontrivial=lambda c, l: " " in c and not l.startswith("- "),
           rule="every ordered pair of head classes (major type x argument form, reserved bytes included) and every initial byte followed by itself, delivered one-shot / cut at the token boundary / cut inside the first head / byte-at-a-time; concatenations of enumerated / random items and raw head sequences x every single cut, byte-at-a-time, random cuts; the C client loop of hx calls the real decoder on exactly the buffered bytes; non-trivial = at least one cut and one event"),
    Stream("frag-fixed", "frag", streamgen.frag_cases, flavours=("rel",), env={"HX_FIXEDRX": "1"}, stateless=True,
           nontrivial=lambda c, l: " " in c and not l.startswith("- "),
           rule="the same deliveries with the client presenting its bytes at the start of ONE fixed receive buffer reused by every call of every case (streams abandoned mid-item are followed by new streams at the same address), also in shuffled order: the decoder may key nothing on the buffer address"),
], level_note="Theorem about the client model (PDrive.v) over the decoder model; the C client loop in hx.c is tied by the frag stream"))

reg(Prop("C10", ["Properties_C10"], [
    Stream("encdec", "encdec", encdec_cases, stateless=True, flavours=("rel", "dbg"),
           nontrivial=lambda c, l: not l.startswith("0 "),
           rule="every public encoder x (8/16-bit domains exhaustive or densely strided, every power of two +-1, width boundaries, random 32/64-bit values; all 65,536 half values; float pattern sets); encode then decode the bytes written + one trailing byte; non-trivial = encoder wrote something"),
    Stream("enc", "enc", streamgen.enc_cases, stateless=True, flavours=("rel",), nontrivial=lambda c, l: not l.startswith("0 "),
           rule="(encoder, value, buffer size 0..10): return value and the exact bytes stored (two-sentinel image)"),
], level_note="Theorems about encoder and decoder models; tied by the encdec/enc streams"))

reg(Prop("C07", ["Properties_C07"], [
    Stream("ser", "ser", treegen.ser_cases, flavours=("rel", "dbg"), nontrivial=lambda c, l: True,
           rule="trees built through the public API from enumerated + random S-expressions (every builder, width, boundary value, empty / multi-chunk strings, containers with 23/24/255/256 entries); for each: serialized_size, serialize_alloc, serialize for every n in 0..size+2 into an exactly-sized heap block with two sentinels"),
    Stream("enc", "enc", streamgen.enc_cases, flavours=("rel", "dbg"), nontrivial=lambda c, l: not l.startswith("0 "),
           rule="(encoder, value, n in 0..10) triples; exact return value and bytes stored"),
], judge=lambda ctx, s, fl, c, a, b: judges.ser_judge(ctx, s, fl, c, a, b) if s.name == "ser" else ("model expects " + b[:200]),
   level_note="Theorem about the serializer model vs the RFC encoding spec; tied by ser/enc streams incl. ASan"))

reg(Prop("C20", ["Properties_C20"], [
    Stream("mem", "mem", streamgen.mem_cases, flavours=("rel", "dbg"), nontrivial=lambda c, l: True,
           rule="guard functions on a dense boundary grid (2^i +- delta)^2 plus random operands; _cbor_alloc_multiple / _cbor_realloc_multiple request sizes via a recording allocator; growth step of an indefinite array, of an indefinite map (through cbor_map_add) and of the chunk table of an indefinite byte / text string with faked capacities up to 2^64-1 (request size or none, metadata unchanged, no reference taken)"),
    Stream("load-sizes", "load", lambda ctx: [c for c in cborgen.load_cases(ctx) if len(c) >= 10 and c[:2] in ("5a", "5b", "7a", "7b", "9a", "9b", "ba", "bb", "81")][:4000],
           args=(LDEF, CAP), flavours=("rel",), spec="load_spec", nontrivial=not_trivial_load,
           rule="declared counts / lengths near 2^16..2^64 through cbor_load with a size-cap allocator"),
], judge=lambda ctx, s, fl, c, a, b: judges.mem_judge(ctx, s, fl, c, a, b) if s.name == "mem" else None if False else ("spec expects " + b[:200]),
   level_note="Theorems for every word width about the guard models; tied by the mem stream"))

reg(Prop("C15", ["Properties_C15"], [
    Stream("floatdec", "dec1", streamgen.float_dec_cases, stateless=True, flavours=("rel", "dbg"), nontrivial=lambda c, l: True, exhaustive=False,
           rule="decoder: all 65,536 half patterns (exhaustive), single / double pattern sets (every exponent x boundary mantissas + random); the value is compared as the binary32/64 bits the callback receives (NaN canonical)"),
    Stream("halfser", "ser", half_tree_cases, flavours=("rel",), nontrivial=lambda c, l: True, exhaustive=True,
           rule="all 65,536 half values as items: serialization reproduces the original two bytes (NaN -> 7e00)"),
    Stream("floatenc", "enc", lambda ctx: [c for c in streamgen.enc_cases(ctx) if c.split()[0] in ("half", "single", "double")],
           stateless=True, flavours=("rel", "dbg"), nontrivial=lambda c, l: True,
           rule="cbor_encode_half on every exponent class x boundary mantissas (incl. values no half can represent: totality), singles, doubles"),
    # the float payload path must not depend on the client's floating-point environment: decoded floats of every width and
    # class, re-serialized, under flush-to-zero / denormals-are-zero (a value conversion on the path would flush subnormals)
    Stream("floatdec-ftz", "dec1", lambda ctx: [c for c in streamgen.float_dec_cases(ctx) if not c.startswith("f9")] + streamgen.float_dec_cases(ctx)[:65536:37],
           flavours=("rel",), env={"HX_FPENV": "ftzdaz"}, nontrivial=lambda c, l: True,
           rule="the single / double pattern sets (every exponent incl. 0 = subnormals x boundary mantissas + random) and a sample of halves through the streaming decoder with MXCSR.FTZ|DAZ set in the client: the callback must still receive the exact bits"),
    Stream("float-rt-ftz", "loadpost", lambda ctx: [c for c in streamgen.float_dec_cases(ctx) if not c.startswith("f9")][::3] + ["82" + c + c for c in streamgen.float_dec_cases(ctx)[65536::29]],
           args=(LDEF, CAP), flavours=("rel",), env={"HX_FPENV": "ftzdaz"}, nontrivial=lambda c, l: l.startswith("ok "),
           rule="float items (singles / doubles of every exponent class, alone and as array elements) decoded by cbor_load with MXCSR.FTZ|DAZ set in the client, read back through the width-specific getters as bits, described, sized, serialized, copied: exact bits (subnormals included)"),
], level_note="Flocq theorems about decode_half; sweeps over all half patterns; tied by exhaustive half streams"))

reg(Prop("C02", ["Properties_C02"], [load_stream()],
         level_note="Theorem: builder machine = recursive-descent spec; byte loop = machine o tokenisation; tied by the load stream (release + ASan/UBSan, input block freed before the tree is read, refcounts checked)"))
reg(Prop("C05", ["Properties_C05"], [load_stream()],
         level_note="Same master theorem, error classes and positions included; result struct pre-filled with a sentinel; live-block count after every failure"))

def decoded_trees(ctx):
    """trees the decoder returns for the C02 input space (taken from the model's own output) + API-built trees"""
    import subprocess
    from . import corr
    cases = cborgen.load_cases(ctx)
    lines = corr.run_stream(corr.model_cmd("load", [LDEF, CAP]), cases, timeout=600)
    seen, out = set(), []
    for l in lines:
        if l.startswith("ok "):
            sx = l.split(" ", 2)[2]
            if sx not in seen and len(sx) < 400:
                seen.add(sx); out.append(sx)
    step = max(1, len(out) // (3000 if ctx.tier == "quick" else 60000))
    return out[::step] + treegen.ser_cases(ctx)

reg(Prop("C03", ["Properties_C03"], [
    Stream("rt", "rt", decoded_trees, args=(LDEF, CAP), flavours=("rel", "dbg"), nontrivial=lambda c, l: " -> ok " in l,
           rule="every distinct tree the decoder returns for the C02 input space (sub-sampled in quick) plus API-built enumerated / random trees: serialize_alloc, cbor_load of the bytes followed by two garbage bytes, dump, re-serialize and compare; non-trivial = the bytes load back"),
    Stream("ser", "ser", treegen.ser_cases, flavours=("rel",), nontrivial=lambda c, l: True,
           rule="API-built trees: exact bytes of serialization (see C07)"),
], level_note="Theorems: serialize_into = encode_rfc (C07_into) and load (encode_rfc t ++ rest) = canon t for every tree satisfying rt_ok; tied by the rt / ser streams"))

reg(Prop("C18", ["Properties_C18"], [
    Stream("rdonly", "rdonly", treegen.ser_cases, flavours=("rel", "O0"), nontrivial=lambda c, l: "(tag" in c or "(arr" in c or "(map" in c,
           rule="every tree of the ser space built inside an arena that is then mprotect(PROT_READ)-ed; cbor_serialized_size, cbor_serialize and every predicate / getter that hands out no reference run under the protection at -O2 and -O0; a store faults deterministically and is reported with the node path; byte image compared before/after; non-trivial = tree with at least one container or tag"),
], level_note="Theorem about model H's access log (every store to an existing block is logged); the model is tied to the real code by the write-protected arena runs and by the hist stream"))

HIST_RULE = ("random rule-following API histories (a shadow of the client's own references keeps them legal: new/build of every type, "
             "push/get/set/replace, map add, add chunk, tag set/get/build, copy, load, serialize, incref, decref; shared sub-items; "
             "acyclic), lengths 3..150; compared per step: return value, refcount of every handle the client holds, container "
             "size/capacity, and at the end the live-block count and the complete allocator event trace (sizes, block identities); "
             "non-trivial = history with at least one container insertion")
hist_nt = lambda c, l: ("push" in c or "madd" in c or "chunk" in c or "tset" in c or "bt " in c)

def hist_stream(name="hist", flavours=("rel", "dbg"), env=None, gen=histgen.hist_cases):
    return Stream(name, "hist", gen, args=(LDEF, CAP, "none", 0), flavours=flavours, nontrivial=hist_nt, rule=HIST_RULE, env=env, timeout=600)

def pairs_xy(ctx):
    """(x, y) pairs: x from the enumerated well-formed space, y in {empty, every single byte (sampled), other items, garbage}; sequences of <= 6 items"""
    rng = ctx.rng
    enum = cborgen.enumerated(1)
    xs = enum[:: (6 if ctx.tier == "quick" else 1)]
    out = []
    ys = [[b] for b in (range(0, 256, 5) if ctx.tier == "quick" else range(256))] + [[0xFF, 0xFF], [0x1C], [0x82, 0x01], [0x5F, 0xFF], [0xEE] * 9]
    for i, x in enumerate(xs):
        out.append(x.bs)
        for y in (ys if i % 5 == 0 else rng.sample(ys, 6)):
            out.append(x.bs + list(y))
        out.append(x.bs + rng.choice(enum).bs)
    for _ in range(200 if ctx.tier == "quick" else 5000):
        s = []
        for _ in range(rng.randrange(2, 7)):
            s += rng.choice(enum).bs
        out.append(s)
    # strings whose payload ends in the middle of a UTF-8 sequence / looks like the start of one / is empty, ints at
    # width boundaries, each followed by EVERY possible next byte (an item's decoding may not look past its end)
    special = [[0x62, 0x61, 0xC3], [0x61, 0xE2], [0x62, 0xE2, 0x82], [0x63, 0xF0, 0x9F, 0x98], [0x61, 0xC3], [0x42, 0x61, 0xC3], [0x60], [0x40],
               [0x78, 0x02, 0x61, 0xC3], [0x7F, 0x61, 0xC3, 0xFF], [0x5F, 0xFF], [0x9F, 0x9F, 0xFF, 0xFF], [0xBF, 0x61, 0xC3, 0x9F, 0xFF, 0xFF],
               [0x81, 0x61, 0xC3], [0xC1, 0x61, 0xE2], [0x17], [0x18, 0x18], [0xF9, 0x7E, 0x00], [0xF5], [0x80], [0xA0]]
    for x in special:
        for t in range(256):
            out.append(x + [t])
    # every head form (all argument widths, non-empty containers, tags, strings) followed by 0..10 and 16 further bytes:
    # what a head reader does may not depend on how much input follows the item
    tails = [[0x05] * k for k in list(range(0, 11)) + [16]] + [[0x82, 0x03, 0x04], [0xFF] * 9]
    for x in cborgen.wide_heads() + cborgen.leaf_encs():
        for t in tails:
            out.append(x.bs + t)
    return [cborgen.hx(b) for b in out]

def seq_cases(ctx):
    return pairs_xy(ctx)

reg(Prop("C14", ["Properties_C14"], [
    Stream("pairs", "seq", pairs_xy, args=(LDEF, CAP), flavours=("rel", "dbg"), nontrivial=lambda c, l: l.count("ok") >= 1,
           rule="(x, y) pairs with x from the enumerated well-formed space and y the empty string, single bytes, other items or garbage, plus concatenations of 2..6 enumerated items; strings ending inside / at the start of a UTF-8 sequence, empty strings, nested indefinite containers and boundary scalars each followed by every one of the 256 possible next bytes; the harness decodes repeatedly at the offset advanced by bytes-read, each item presented with the exact remainder of the buffer; non-trivial = at least one item decoded"),
], level_note="Theorems C14_suffix (frame lemma on the parser spec + head prefix-independence) and C14_sequence (from the C03 round trip); tied by the seq stream"))

DEPTH_LS_QUICK = (1, 2, 3)
DEPTH_LS_THOROUGH = (1, 2, 3, 8, 64, 2048)
def depth_streams():
    out = []
    for L in DEPTH_LS_THOROUGH:
        g = cborgen.depth_cases_for(L)
        def gen(ctx, L=L, g=g):
            if ctx.tier == "quick" and L not in DEPTH_LS_QUICK:
                return []
            return g(ctx)
        out.append(Stream("depth-L%d" % L, "depth", gen, args=(L, CAP), flavours=("rel",), L=L, timeout=1200,
                          nontrivial=lambda c, l: True,
                          rule="library rebuilt through cmake with -DCBOR_MAX_STACK_SIZE=%d; nesting built from every container kind (tags, definite / indefinite arrays and maps in key and value position, chunked strings innermost) at depths L-1, L, L+1, L+2, 4L, mixed chains, truncated deep inputs; decode + describe + size + serialize + copy + release on a thread whose stack is 128 KiB + 768 B x L" % L))
    return out
reg(Prop("C19", ["Properties_C19"], depth_streams(),
         level_note="Theorems for every L about the model (L is a parameter): depth <= L, exactness, MEMERROR beyond; native stack bytes per frame are not modelled: the small-stack thread of the depth stream observes them"))

reg(Prop("C01", ["Properties_C01"], [
    Stream("loadpost", "loadpost", cborgen.load_cases, args=(LDEF, CAP), flavours=("dbg", "rel"), nontrivial=not_trivial_load, rule=LOAD_RULE + "; after a successful decode: describe, size, serialize, copy, release; ASan+UBSan build with CBOR_ASSERT live, each input in an exactly-sized heap block", timeout=900),
    Stream("dec1", "dec1", streamgen.dec1_cases, flavours=("dbg",), nontrivial=lambda c, l: c != "-",
           rule="streaming decoder on every initial byte x every truncation, exactly-sized blocks, ASan+UBSan"),
], level_note="partial: the theorems cover the streaming decoder, the tree decoder (model P: no out-of-bounds read, no third outcome, termination), total serialization, read-only traversal and safe release; heap-level safety of the builder and of cbor_copy under the C04 invariant is tied by the hist/loadpost streams but not yet a theorem; C undefined behaviour outside bounds/assert logic (alignment, printf formats in cbor_describe, libc) is seen only by the sanitizer runs"))

reg(Prop("C04", ["Properties_C04"], [hist_stream()],
         level_note="partial: the invariant (count = client's + containers' + pending references; single ownership of data blocks) is proved preserved by the release machine, incref and the leaf constructors, with exactly-once release, no touch after release and no leak; preservation by every other API call is tied by the hist stream (per-step refcounts and the full allocator trace) but not yet a theorem"))

reg(Prop("C13", ["Properties_C13"], [
    hist_stream("hist-tag", flavours=("rel",), env={"HX_ALLOC": "tag"}),
    hist_stream("hist-arena", flavours=("rel",), env={"HX_ALLOC": "arena"}),
    Stream("dec1-noalloc", "dec1", lambda ctx: streamgen.dec1_cases(ctx)[::7], flavours=("rel",), nontrivial=lambda c, l: c != "-",
           rule="request counter of the streaming decoder (any request appends ALLOCS=n to the line)"),
    Stream("enc-noalloc", "enc", lambda ctx: streamgen.enc_cases(ctx)[::7], flavours=("rel",), nontrivial=lambda c, l: True,
           rule="request counter of the low-level encoders"),
    Stream("ser-noalloc", "ser", treegen.ser_cases, flavours=("rel",), nontrivial=lambda c, l: True,
           rule="request counter of cbor_serialized_size / cbor_serialize (SIZEALLOCS / ALLOCS markers)"),
], level_note="partial: 'never handed to the C library directly' is a fact about the sources and the binary: it rests on the AST inventory (bridge lemma) and on the exact equality of the predicted allocator trace under a tagging allocator (hidden header + magic: a stray libc free/realloc aborts) and an arena with no libc backing"))

reg(Prop("C17", ["Properties_C17"], [
    Stream("thr", "thr", histgen.thr_cases, args=(LDEF, CAP), flavours=("tsan", "rel"), nontrivial=lambda c, l: True, timeout=900,
           rule="2..16 threads, each running an independent random API history on thread-private data, released together by a barrier; ThreadSanitizer build (any report fails the run); every thread's per-step observations and allocator trace must equal the single-threaded model's"),
    Stream("shared", "shared", histgen.shared_cases, flavours=("tsan",), nontrivial=lambda c, l: True, timeout=900,
           rule="2..16 concurrent readers (size, serialize, every getter) of one shared fully built tree under ThreadSanitizer"),
], level_note="partial: no executable Gallina model exhibits hardware interleavings or the allocator's own thread-safety (assumed); proved: no hidden mutable global state (AST inventory) and the frame property of read-only traversals; schedules are explored by TSan runs"))

def container_hist_cases(ctx):
    """container-focused histories: capacities 0..8, indices 0..size+2, long insertion runs for the growth clause"""
    rng = ctx.rng
    out = []
    # exhaustive short sequences over one array with a tiny pool
    import itertools
    ops_pool = ["push 1 0", "get 1 0", "get 1 1", "get 1 2", "set 1 0 0", "set 1 1 0", "set 1 3 0", "repl 1 0 0", "repl 1 2 0", "push 1 2"]
    maxlen = 3 if ctx.tier == "quick" else 4
    for cap in range(0, 4):
        for kind in ("nda %d" % cap, "nia"):
            for n in range(1, maxlen + 1):
                for seq in itertools.product(ops_pool, repeat=n):
                    if rng.random() > (0.25 if ctx.tier == "quick" else 1.0) and n == maxlen:
                        continue
                    # handles: 0 = int item, 1 = array, 2 = second item; results of get are new handles (released at the end)
                    ops = ["bi 0 8 7", kind, "bs 0 6162"] + list(seq)
                    out.append(close_history(ops))
    # indices that agree with an in-range index (or with size) modulo 2^8 / 2^16 / 2^31 / 2^32 / 2^63: refused, nothing touched
    for kind in ("nda 3", "nia"):
        for size in (0, 1, 2):
            for base in (0, size - 1, size, size + 1):
                if base < 0:
                    continue
                for k in (1 << 8, 1 << 16, 1 << 31, 1 << 32, 3 << 32, 1 << 63, (1 << 64) - (1 << 32)):
                    if base + k >= 1 << 64:
                        continue
                    ops = ["bi 0 8 7", kind, "bs 0 6162"] + ["push 1 0"] * size
                    ops += ["get 1 %d" % (base + k), "set 1 %d 2" % (base + k), "repl 1 %d 2" % (base + k), "get 1 0"]
                    out.append(close_history(ops))
            ops = ["bi 0 8 7", kind, "bs 0 6162"] + ["push 1 0"] * size
            ops += ["get 1 %d" % ((1 << 64) - 1), "set 1 %d 2" % ((1 << 64) - 1), "repl 1 %d 2" % ((1 << 64) - 1)]
            out.append(close_history(ops))
    # maps and chunked strings
    for cap in range(0, 4):
        for kind in ("ndm %d" % cap, "nim"):
            for n in range(0, 6):
                ops = ["bi 0 8 1", kind, "bs 1 61"] + ["madd 1 0 2"] * n
                out.append(close_history(ops))
    for t in (0, 1):
        for n in range(0, 10):
            out.append(close_history(["bs %d 6162" % t, "nis %d" % t] + ["chunk 1 0"] * n))
    # growth: thousands of insertions
    for n in ((40, 130, 1100) if ctx.tier == "quick" else (40, 130, 1100, 2049, 4100)):
        out.append(close_history(["bi 0 8 1", "nia"] + ["push 1 0"] * n, probe_every=max(1, n // 12)))
        out.append(close_history(["bi 0 8 1", "nim", "bc 20"] + ["madd 1 0 2"] * (n // 2), probe_every=max(1, n // 12)))
        # the chunk tables of indefinite byte and text strings grow by the same rule (the allocator trace counts and sizes every realloc)
        for t in (0, 1):
            out.append(close_history(["bs %d 6162" % t, "nis %d" % t] + ["chunk 1 0"] * (n // 2 if n > 1000 else n), probe_every=max(1, n // 12)))
    return out

def close_history(ops, probe_every=1):
    """append the releases that make the history rule-following and attach probes"""
    own = []
    text = []
    for i, o in enumerate(ops):
        w = o.split()
        if w[0] in ("bi", "bf", "bc", "bs", "nis", "nda", "nia", "ndm", "nim", "nt", "bt", "get", "titem", "copy"):
            own.append(1)
        live = [h for h in range(len(own)) if own[h] > 0]
        # handles returned by get may be NULL: probing a NULL handle prints NULL on both sides
        text.append(o + (" ? " + " ".join(map(str, live)) if (i % probe_every == 0 or i == len(ops) - 1) else ""))
    for h in range(len(own)):
        text.append("dec %d" % h)      # skipped on both sides when the handle is NULL
    return "; ".join(text)

reg(Prop("C12", ["Properties_C12"], [
    Stream("containers", "hist", container_hist_cases, args=(LDEF, CAP, "none", 0), flavours=("rel", "dbg"), nontrivial=lambda c, l: True, timeout=900,
           rule="operation sequences on every container kind: capacities 0..3 (definite) and indefinite, indices 0..size+2 and indices congruent to an in-range index or to size modulo 2^8, 2^16, 2^31, 2^32, 2^63 (and 2^64-1), exhaustive sequences of push/get/set/replace up to length 3 (4 thorough) over a pool of items, map adds and chunk adds 0..9, and runs of up to 1100 (4100 thorough) insertions for the growth clause; compared per step with the model (return value, size/capacity, refcounts) and on the complete allocator trace, which counts and sizes every realloc"),
    hist_stream("hist", flavours=("rel",)),
], level_note="Per-operation refinement lemmas over model H (HCont_proofs.v) for arbitrary allocator oracles; the in-range replace that releases the last reference of the old element is covered by the C04 release theorem + the hist stream, not by a container lemma"))

reg(Prop("C06", ["Properties_C06"], [
    Stream("fault", "fault", histgen.fault_cases, args=(LDEF, CAP), flavours=("rel", "dbg"), nontrivial=lambda c, l: " only" in l, timeout=1200,
           rule="for each scenario history (every builder, push / map add / add chunk at growth steps, copy, load, serialize_alloc, tags) the harness counts the N allocator requests of a fault-free run, then re-runs it 2N times refusing request k only / every request from k on (k = 0..N-1): per step the documented failure value, the refcount and size/capacity of every handle the client holds, at the end the live-block count and the whole allocator trace, all compared with the model under the same oracle; non-trivial = N >= 1"),
], level_note="partial: clean, atomic failure is proved for every constructor and for container growth (arbitrary oracle); for cbor_copy, cbor_load and cbor_serialize_alloc it is tied by the exhaustive single-fault / fail-from-k enumeration of the fault stream and proved when HCopy_proofs / HLoad_proofs are present"))

# ---- strengthening after the seeded-change evaluation (DESIGN.md section 12) ----
def default_L_cases(ctx):
    """nesting exactly at / around the default limit, every container kind"""
    out = []
    for k in ("tag", "arr", "arri", "mapk", "mapv", "mapik", "mapiv"):
        for d in (LDEF - 1, LDEF, LDEF + 1):
            out.append(cborgen.hx(cborgen.nest(k, d, (0x01,))))
    out.append(cborgen.hx(cborgen.nest("tag", LDEF - 1, (0x5F, 0x41, 0x00, 0xFF))))
    out.append(cborgen.hx(cborgen.nest("arr", LDEF, (0x5F, 0x41, 0x00, 0xFF))))
    return out

default_L_stream = lambda: Stream("depth-default-L", "loadpost", default_L_cases, args=(LDEF, CAP), flavours=("rel",), timeout=900,
                                  nontrivial=lambda c, l: True,
                                  rule="the default build (L = %d): every container kind nested L-1, L and L+1 deep; decode + describe + size + serialize + copy + release, live-block count" % LDEF)
PROPS["C02"].streams.append(default_L_stream())
PROPS["C19"].streams.append(default_L_stream())
PROPS["C03"].streams.append(default_L_stream())
PROPS["C19"].streams.append(Stream("thr-depth", "thr", histgen.depth_thr_cases, args=(LDEF, CAP), flavours=("tsan", "rel"), nontrivial=lambda c, l: True, timeout=900,
                                   rule="4..16 threads at once, each decoding / copying / serializing / releasing nested items (1..40 levels, every container kind) of its own, under ThreadSanitizer and in the release build: the nesting budget and the decoding stack are per call (any shared counter is a reported race or a spurious MEMERROR)"))
PROPS["C07"].streams.append(default_L_stream())
# "the operations a client then performs on a decoded tree (describe, size, serialize, copy, release) ... return": also at the deepest
# nesting the default build accepts, on the ordinary 8 MiB stack (a per-frame buffer in a recursive walker shows only there)
PROPS["C01"].streams.append(default_L_stream())
# "MEMERROR just past a complete head that would nest too deep": the position and code at the default limit, every container kind
PROPS["C05"].streams.append(default_L_stream())
PROPS["C04"].streams.append(Stream("limit-load", "hist", histgen.limit_load_cases(3), args=(3, CAP, "none", 0), flavours=("rel",), L=3, timeout=600,
                                   nontrivial=lambda c, l: True, rule="library rebuilt with CBOR_MAX_STACK_SIZE=3: cbor_load of inputs nested L-1 .. L+2 deep inside an API history: live blocks and allocator trace (a record leaked at the limit shows as a live block)"))

load_fault = lambda flavours=("rel",), env=None, name="load-fault": Stream(
    name, "fault", lambda ctx: histgen.load_fault_cases(ctx), args=(LDEF, CAP), flavours=flavours, env=env, timeout=1200,
    nontrivial=lambda c, l: " only" in l,
    rule="cbor_load of each corpus input (every type, nested containers, chunked strings, truncated and malformed inputs with partial trees on the stack) with request k alone / every request from k on refused, for every k: result, error code, live blocks, complete allocator trace")
struct_fault = lambda flavours=("rel",), env=None, name="growth-fault": Stream(
    name, "fault", lambda ctx: histgen.structured_fault_cases(ctx), args=(LDEF, CAP), flavours=flavours, env=env, timeout=1200,
    nontrivial=lambda c, l: " only" in l,
    rule="containers grown across every capacity boundary (1,2,4,8), then copied / serialized: the fault enumeration refuses the 1st, 2nd, 3rd ... growth request")
PROPS["C01"].streams += [load_fault(("dbg",)), struct_fault(("dbg",))]
PROPS["C05"].streams.append(load_fault(("rel", "dbg")))
PROPS["C13"].streams += [load_fault(("rel",), {"HX_ALLOC": "tag"}, "load-fault-tag"), struct_fault(("rel",), {"HX_ALLOC": "tag"}, "growth-fault-tag")]

def accepted_inputs(ctx):
    """inputs the decoder accepts, as sources for cbor_copy that were NOT built by the construction API"""
    from . import corr
    cases = cborgen.load_cases(ctx)
    lines = corr.run_stream(corr.model_cmd("load", [LDEF, CAP]), cases, timeout=600)
    ok = ["@" + c for c, l in zip(cases, lines) if l.startswith("ok ") and 4 <= len(c) <= 200]
    extra = ["@" + cborgen.hx(b) for b in ([0x65, 0x61, 0x62, 0x00, 0x63, 0x64], [0x7F, 0x63, 0x61, 0x00, 0x62, 0x61, 0x00, 0xFF], [0xA1, 0x62, 0x00, 0x41, 0x42, 0x00, 0xFF],
                                           [0x78, 0x20] + [0x41, 0x00] * 16, [0x82, 0x63, 0x00, 0x00, 0x01, 0x60])]
    step = max(1, len(ok) // (1500 if ctx.tier == "quick" else 30000))
    return extra + ok[::step]

def copy_hist_cases(ctx):
    """histories whose focus is cbor_copy: trees with shared sub-items, empty containers, zero-chunk strings, max-width ints; copy, then mutate / release either side"""
    rng = ctx.rng
    out = []
    base = [
        ["bi 1 64 18446744073709551615", "nia", "push 1 0", "push 1 0", "copy 1", "ser 1 40", "ser 2 40", "dec 1", "ser 2 40", "dec 2", "dec 0"],
        ["bs 1 c3a9", "nim", "madd 1 0 0", "copy 1", "bi 0 8 5", "madd 2 3 3", "ser 1 30", "ser 2 30"],
        ["nis 0", "copy 0", "bs 0 00", "chunk 1 2", "ser 0 10", "ser 1 10"],
        ["bi 1 8 23", "bt 5 0", "bt 6 1", "copy 2", "copy 1", "titem 3", "ssize 3", "ssize 4"],
        ["nda 3", "bi 0 8 1", "push 0 1", "copy 0", "push 2 1", "push 2 1", "push 2 1", "ser 0 20", "ser 2 20"],
        ["ndm 0", "copy 0", "nda 0", "copy 2", "nim", "copy 4", "nia", "copy 6"],
        ["bf 16 3c000000", "bf 32 7fc00000", "bf 64 7ff8000000000000", "bc 22", "nia", "push 4 0", "push 4 1", "push 4 2", "push 4 3", "copy 4", "ser 5 64"],
    ]
    for ops in base:
        out.append(histgen._close(ops))
    for _ in range(150 if ctx.tier == "quick" else 3000):
        s = histgen.gen_history(rng, rng.choice([10, 20, 40]))
        # append copies of every live complete handle before the final releases
        txt = histgen.render(s)
        out.append(txt)
    return out

reg(Prop("C11", ["Properties_C11"], [
    Stream("copy", "copy", lambda ctx: treegen.ser_cases(ctx) + decoded_trees(ctx)[:1500] + accepted_inputs(ctx), flavours=("rel", "dbg"), nontrivial=lambda c, l: "(arr" in c or "(map" in c or "(tag" in c or "si" in c,
           rule="every tree of the C03 space (decoder output + API-built): copy, compare serializations and shapes, address-set disjointness of nodes and buffers, every refcount of the copy = 1, source serialization / shape / refcounts unchanged, release the source and re-check the copy, release the copy and check nothing is left; ASan build"),
    Stream("copy-hist", "hist", copy_hist_cases, args=(LDEF, CAP, "none", 0), flavours=("rel", "dbg"), nontrivial=hist_nt, timeout=600,
           rule="API histories with shared sub-items (which come out unshared), empty containers, zero-chunk strings, max-width ints: copy, then mutate / serialize / release either side; per-step refcounts, sizes, live blocks, allocator trace against model H"),
    struct_fault(("rel",), None, "copy-fault"),
], level_note="Theorem copy_spec over model H for an arbitrary allocator oracle (source untouched, copy fresh / disjoint / counts 1 / same abstraction, clean failure), tied by the copy / hist / fault streams"))

# ---- huge buffers (C14) and limits beyond 16 bits (C19): cases no list-based model can evaluate;
#      the expected line comes from the model on the small part + the theorem (C14_suffix), resp. from
#      the closed form the theorem C19_exact gives for a chain of tags
def bigsuffix_cases(ctx):
    xs = ["01", "8301820203f97e00", "bf6161a0ff", "5f41004101ff", "c1d8646568656c6c6f", "9f9f9fffffff", "3bffffffffffffffff", "f5", "7f626162ff", "a201020304"]   # acceptable items only: the theorem is about acceptable x
    ys = [0, 1, 2 ** 31 - 12, 2 ** 31, 2 ** 31 + 5, 3 * 2 ** 30, 2 ** 32 - 7, 2 ** 32, 2 ** 32 + 9, 2 ** 33]
    return ["%s|%d" % (x, y) for x in xs for y in ys]

bigs = Stream("bigsuffix", "bigsuffix", bigsuffix_cases, args=(LDEF, CAP), flavours=("rel",), nontrivial=lambda c, l: not c.endswith("|0"),
              model_case=lambda c: c.split("|")[0],
              rule="x followed by up to 2^33 zero bytes of an untouched anonymous mapping (sizes around 2^31 and 2^32): the result must be what the model gives for x alone (theorem C14_suffix); errors on truncated / malformed x likewise position-exact")
bigs.model_stream = "load"
PROPS["C14"].streams.append(bigs)

def tagchain_expect(L):
    def f(case):
        n = len(case) // 2
        d = n - 1                       # d tags then the leaf 01
        if d <= L:
            return "ok %d %s(u8 1)%s post=%d:%d:1" % (n, "(tag 1 " * d, ")" * d, n, n)
        return "err MEMERROR %d %d" % (L + 1, L + 1)
    return f
BIGL = 70000
PROPS["C19"].streams.append(Stream("depth-L%d" % BIGL, "depth", lambda ctx: ["c1" * d + "01" for d in (BIGL - 1, BIGL, BIGL + 1, 65535, 65536, 65537)],
                                   args=(BIGL, CAP), flavours=("rel",), L=BIGL, timeout=900, tiers=("thorough", "search"),
                                   expect=tagchain_expect(BIGL), nontrivial=lambda c, l: True,
                                   rule="library rebuilt with CBOR_MAX_STACK_SIZE=%d (beyond 16 bits): chains of tags L-1, L, L+1 and around 65536 deep; expected result in closed form from theorem C19_exact (thorough tier and failing-input search only)" % BIGL))

PROPS["C14"].streams.append(Stream("bigitem", "bigitem", lambda ctx: [str(2 ** 32), str(2 ** 32 + 5), str(2 ** 31 + 1)], flavours=("rel",), timeout=900,
                                   tiers=("thorough", "search"), expect=lambda c: "ok %d len=%d next=ok:1" % (9 + int(c), int(c)), nontrivial=lambda c, l: True,
                                   rule="a definite byte string of 2^31+1 / 2^32 / 2^32+5 bytes followed by another item, in an anonymous mapping (needs ~4 GiB for the decoded copy; thorough tier and failing-input search only): bytes-read must be 9+n and the next decode must find the next item (closed form from C14_sequence)"))

# "for every value in the domain": also when the client passes a buffer_size that only says "plenty of room" (SIZE_MAX, 2^63, 2^32):
# by C07_enc the result for any size >= 9 is the result for 32
def enc_huge_cases(ctx):
    out = []
    names = list(streamgen.ENC_INT) + streamgen.ENC_NOARG + ["bool", "half", "single", "double"]
    for name in names:
        for v in (0, 1, 23, 24, 255, 256, 65535, 65536, 2 ** 32 - 1, 2 ** 32, 2 ** 64 - 1):
            bits = streamgen.ENC_INT.get(name, 64)
            if name in streamgen.ENC_NOARG:
                v = 0
            elif name == "bool":
                v = v & 1
            elif name == "half" or name == "single":
                v = v & 0xFFFFFFFF
            elif v >= (1 << bits):
                continue
            for n in (4097, 2 ** 31, 2 ** 32, 2 ** 63 - 1, 2 ** 63, 2 ** 64 - 1):
                out.append("%s %s %d" % (name, ("0x%x" % v) if name in ("half", "single", "double") else str(v), n))
    return sorted(set(out))
def _enc32(c):
    w = c.split()
    return "%s %s 32" % (w[0], w[1])
enc_huge = lambda: Stream("enc-huge", "enc", enc_huge_cases, flavours=("rel",), model_case=_enc32, nontrivial=lambda c, l: True,
                          rule="every encoder on boundary values with buffer_size 4097, 2^31, 2^32, 2^63-1, 2^63 and SIZE_MAX over a 32-byte block: the return value and the image of the block must be those of buffer_size 32 (C07_enc: the result does not depend on the size once it suffices)")
PROPS["C10"].streams.append(enc_huge())
PROPS["C07"].streams.append(enc_huge())
# "keeps no state between calls" also when a callback decodes an embedded buffer itself (a re-entrant call of the streaming
# decoder from inside a callback, as a client tokenising tag-24 payloads does): the outer result and events must be unchanged
PROPS["C08"].streams.append(Stream("dec1-reenter", "dec1", lambda ctx: streamgen.dec1_cases(ctx)[::5], flavours=("rel",), env={"HX_REENTER": "1"},
                                   nontrivial=lambda c, l: c != "-",
                                   rule="every fifth dec1 case with recording callbacks that call cbor_stream_decode on another buffer before they return (complete and truncated inner item): status / read / required / events of the outer call as without the inner calls"))
PROPS["C09"].streams.append(Stream("frag-reenter", "frag", streamgen.frag_cases, flavours=("rel",), env={"HX_REENTER": "1"},
                                   nontrivial=lambda c, l: " " in c and not l.startswith("- "),
                                   rule="the fragment deliveries with callbacks that re-enter the streaming decoder on another buffer: the client must receive the same events and waits"))
# counts beyond 32 bits in the decoder's bookkeeping (the number of items a definite map still expects = 2 x pairs): a map
# declaring 2^31 + k pairs followed by a few members must leave the decoder waiting (closed form from C02_machine_is_spec: the
# input is a proper prefix, so NOTENOUGHDATA at its end); the 32 GiB of pair storage are an untouched MAP_NORESERVE mapping
def hugecount_cases(ctx):
    out = []
    for k in (1, 2, 3):
        for members in (2 * k, 2 * k + 1, 2 * k + 2):
            out.append("ba" + "%08x" % (2 ** 31 + k) + "01" * members)
            out.append("bb" + "%016x" % (2 ** 31 + k) + "01" * members)
    return out
hugecount = lambda: Stream("hugecount", "hugecount", hugecount_cases, flavours=("rel",), tiers=("thorough", "search"), timeout=900,
                           expect=lambda c: "err NOTENOUGHDATA %d %d" % (len(c) // 2, len(c) // 2), nontrivial=lambda c, l: True,
                           rule="definite maps declaring 2^31+k pairs (4- and 8-byte count) followed by 2k..2k+2 one-byte items, storage served by an untouched 32 GiB MAP_NORESERVE mapping (thorough tier and failing-input search only): the decoder must report NOTENOUGHDATA at the end of the input, not an item")
PROPS["C20"].streams.append(hugecount())
PROPS["C02"].streams.append(hugecount())
PROPS["C20"].streams.append(Stream("sizes", "sizes", treegen.sizes_cases, flavours=("rel", "dbg"), spec="sizes_spec", nontrivial=lambda c, l: l != "size=0" or "18446" in c,
                                   rule="cbor_serialized_size on trees whose definite strings carry DECLARED lengths near 2^61..2^64 (length metadata forged as in the library's own overflow tests): sums that fit, wrap exactly and wrap by one, in arrays, maps (key+value subtotal), chunk lists and tags; the spec line is the exact unbounded total or 0"))

sizesser = lambda: Stream("sizes-ser", "sizesser", treegen.sizesser_cases, flavours=("rel", "dbg"), nontrivial=lambda c, l: True,
                          expect=lambda c: "ser=0,0,0,0,0,0",
                          rule="the forged-length trees whose every declared string length is >= 2^32, handed to cbor_serialize with buffers of 0, 1, 9, 10, 18 and 64 bytes (exactly-sized heap blocks under ASan; 16 sentinel bytes behind the buffer otherwise): the result must be 0 and nothing may be stored past the buffer (closed form from C07_into / ssize_s_exact_or_zero: the encoding cannot fit)")
PROPS["C20"].streams.append(sizesser())
PROPS["C20"].streams.append(Stream("ser", "ser", treegen.ser_cases, flavours=("rel",), nontrivial=lambda c, l: True,
                                   rule="API-built trees incl. partially filled definite containers whose capacity and size lie on different sides of a head-width boundary: cbor_serialized_size must be the exact total (see C07)"))
PROPS["C07"].streams.append(sizesser())
PROPS["C04"].streams.append(struct_fault(("rel",), None, "growth-fault"))
PROPS["C12"].streams.append(struct_fault(("rel",), None, "growth-fault"))
# "container growth never computes a smaller capacity than it had" at capacities no real container reaches (metadata faked as in
# the library's own overflow tests): the growth step of arrays, maps and chunk tables as the request the allocator sees
PROPS["C12"].streams.append(Stream("grow", "mem", lambda ctx: [c for c in streamgen.mem_cases(ctx) if c.startswith("grow")], flavours=("rel",),
                                   nontrivial=lambda c, l: True,
                                   rule="growth step of an indefinite array / map / chunk table with faked capacities 2^i +- 2 up to 2^64-1: the request handed to the allocator is exactly max 1 (2 cap) elements or none; metadata unchanged and no reference taken when refused"))

sethandle = lambda flavours=("rel",), env=None, name="set-handle": Stream(
    name, "hist", histgen.sethandle_cases, args=(LDEF, CAP, "none", 0), flavours=flavours, env=env, nontrivial=lambda c, l: "seth" in c,
    rule="client-provided buffers: cbor_new_definite_(byte)string + set_handle of a buffer obtained from the installed allocator, shortening in place by re-installing the item's own buffer, then use in containers / chunked strings, copy, serialize, release; complete allocator trace (a buffer freed by set_handle or freed twice shows as an extra or BADPTR event)")
PROPS["C13"].streams += [sethandle(("rel",), {"HX_ALLOC": "tag"}, "set-handle-tag"), sethandle(("dbg",), None, "set-handle")]
PROPS["C04"].streams.append(sethandle(("rel", "dbg")))
PROPS["C16"].streams.append(sethandle(("rel",)))
PROPS["C03"].streams.append(sethandle(("rel",)))
# inputs in read-only memory followed by an inaccessible page: the decoders may neither store into the caller's buffer
# (not even transiently) nor read a byte past it
ro_dec1 = lambda: Stream("dec1-ro", "dec1", lambda ctx: streamgen.dec1_cases(ctx)[::3], flavours=("rel",), env={"HX_ROINPUT": "1"}, nontrivial=lambda c, l: c != "-",
                         rule="every third dec1 case with the input at the end of a PROT_READ mapping followed by a PROT_NONE page (release build): a store into the input, or a read past its end, faults")
ro_load = lambda name="load-ro", stream="load": Stream(name, stream, lambda ctx: cborgen.load_cases(ctx)[::3], args=(LDEF, CAP), flavours=("rel",), env={"HX_ROINPUT": "1"},
                         spec="load_spec" if stream == "load" else None, nontrivial=not_trivial_load, timeout=600,
                         rule="every third input of the load space at the end of a PROT_READ mapping followed by a PROT_NONE page (release build): cbor_load may neither write to its input nor read past source_size")
PROPS["C08"].streams.append(ro_dec1())
PROPS["C01"].streams += [ro_dec1(), ro_load("loadpost-ro", "loadpost")]
PROPS["C02"].streams.append(ro_load())
PROPS["C14"].streams.append(Stream("pairs-ro", "seq", pairs_xy, args=(LDEF, CAP), flavours=("rel",), env={"HX_ROINPUT": "1"}, nontrivial=lambda c, l: l.count("ok") >= 1,
                                   rule="the (x, y) pairs with every remainder presented at the end of a read-only mapping followed by an inaccessible page: decoding x may not read into (or past) y's bytes beyond what it reports"))
loaduse = lambda flavours=("rel", "dbg"), env=None, name="load-use": Stream(
    name, "hist", histgen.load_use_cases, args=(LDEF, CAP, "none", 0), flavours=flavours, env=env, nontrivial=lambda c, l: True, timeout=600,
    rule="decode an item of every container / chunked / tag kind (empty, one short of and at every growth boundary, nested), then MODIFY the decoded tree through the public API (push / set / replace / get, map add, add chunk, tag item) and serialize / copy / release it: per-step results, sizes / capacities, reference counts and the complete allocator trace against model H (the decoder's bookkeeping must be what the mutators rely on)")
tagreset = lambda flavours=("rel", "dbg"), env=None, name="tag-reset": Stream(
    name, "hist", histgen.tag_reset_cases, args=(LDEF, CAP, "none", 0), flavours=flavours, env=env, nontrivial=lambda c, l: True, timeout=600,
    rule="cbor_tag_set_item on a tag that already has an item (documented: pointer replaced, no reference count change on the previous item, whose reference the client inherits), incl. a new item that is a descendant of the old one held only through it, self-assignment, decoded and API-built tags")
for _p in ("C02", "C01", "C12", "C04"):
    PROPS[_p].streams.append(loaduse())
PROPS["C13"].streams += [loaduse(("rel",), {"HX_ALLOC": "tag"}, "load-use-tag"), tagreset(("rel",), {"HX_ALLOC": "tag"}, "tag-reset-tag")]
PROPS["C04"].streams.append(tagreset())
PROPS["C07"].streams.append(sethandle(("rel", "dbg")))
PROPS["C16"].streams.append(Stream("text-positions", "load", lambda ctx: [cborgen.hx(b) for b in cborgen.text_positions()], args=(LDEF, CAP), flavours=("rel", "dbg"),
                                   spec="load_spec", nontrivial=not_trivial_load,
                                   rule="text strings of every validity class (lone lead / continuation bytes, overlong, surrogate, beyond U+10FFFF, truncated, boundary scalars, NUL, empty) in every position: top level, array element, definite / indefinite map key and value, tag content, chunk, nested: cbor_load must accept each with the bytes intact (C16_content_preserved)"))

# ---- third layer of client calls (model: coq/theories/HHist3.v, theorems: HHist3_proofs.v) ----
API3_WORDS = ("ni ", "su ", "mku ", "mkn ", "nf ", "sf ", "nc", "sc ", "sb ", "bb ", "nn", "nu", "mv ", "pushmv ", "maddmv ", "tsetmv ", "btmv ",
              "idec ", "bs0 ", "sert ", "preds ", "vals ")
api3 = lambda flavours=("rel",), env=None, name="api3": Stream(
    name, "hist", histgen.api3_cases, args=(LDEF, CAP, "none", 0), flavours=flavours, env=env, timeout=600,
    nontrivial=lambda c, l: any(("; " + w) in ("; " + c) for w in API3_WORDS),
    rule="the public calls outside HHist.op / HHist2: cbor_new_int8..64 (value not initialised) + cbor_set_uint8..64 + cbor_mark_uint/negint for every width and "
         "the boundary values 0, 23, 24, 255, 256, 65535, 65536, 2^32-1, 2^32, 2^64-1; cbor_new_float2/4/8 + cbor_set_float2/4/8 on zero / subnormal / normal / "
         "infinite / quiet and signalling NaN patterns and values no half can hold; cbor_new_ctrl + cbor_set_ctrl for all 256 values, cbor_set_bool, cbor_build_bool, "
         "cbor_new_null, cbor_new_undef; cbor_move alone and in the documented idioms push / map_add / tag_set_item / build_tag (f(.., cbor_move(x))) incl. the failed push of a "
         "moved sole reference; cbor_intermediate_decref; cbor_build_string with embedded NUL / empty / invalid UTF-8 / multi-byte text; the eight type-specific serializers "
         "with every buffer size 0..size+1; every predicate (cbor_typeof, cbor_isa_*, cbor_is_*) and value getter as numbers; plus random rule-following histories "
         "mixing these calls with those of the hist stream (a value is never read before it is stored; cbor_move alone only with a second reference); compared per step "
         "(return values, every refcount the client can see, sizes / capacities), final live-block count, complete allocator trace; non-trivial = uses one of the new calls")
PROPS["C04"].streams.append(api3(("rel", "dbg")))
PROPS["C03"].streams.append(api3(("rel",)))
PROPS["C13"].streams.append(api3(("rel",), {"HX_ALLOC": "tag"}, "api3-tag"))
PROPS["C15"].streams.append(api3(("rel",)))      # vals: cbor_float_get_float as the bits of the double (PWiden.v, C15_get_float_value)


# ---- model-fidelity audit (AUDIT.md): targeted cases for branches / boundaries of the models that the older streams did not reach.
#      Every case is small and aimed; every stream agrees (0 disagreements) on the unchanged library in the rel and dbg flavours.
audit_load = lambda name="audit-load", stream="load", flavours=("rel", "dbg"): Stream(
    name, stream, cborgen.audit_cases, args=(LDEF, CAP), flavours=flavours, spec="load_spec" if stream == "load" else None, nontrivial=not_trivial_load,
    rule="every builder callback of builder_callbacks.c (35 minimal heads: each integer / float width, definite / chunked strings, empty and non-empty "
         "definite / indefinite arrays and maps, tags, the four simple values) in every position: root, definite / indefinite array element, "
         "definite / indefinite map key and value, tag content, cascades closing three levels at once, the illegal positions (chunk of either "
         "string kind, break after an odd member) and truncation right after it; every field of cbor_load_result compared (a non-zero position "
         "on success is printed)")
audit_load_cap = lambda: Stream(
    "audit-load-cap4096", "load", cborgen.audit_cap_cases, args=(LDEF, 4096), flavours=("rel", "dbg"), spec="load_spec", nontrivial=not_trivial_load,
    rule="a second allocator cap (4096 bytes): declared payload / array / map sizes at cap-1, cap, cap+1 bytes, and indefinite containers whose last "
         "growth step is exactly cap bytes (the hypothesis under which model P's size cap coincides with the harness allocator: AUDIT.md D2)")
audit_hist = lambda name="audit-hist", flavours=("rel", "dbg"), env=None: Stream(
    name, "hist", histgen.audit_cases, args=(LDEF, CAP, "none", 0), flavours=flavours, env=env, nontrivial=lambda c, l: True, timeout=600,
    rule="rarely used API against model H: cbor_decref(&p) setting p to NULL exactly on deallocation (every node kind), cbor_serialize_alloc with "
         "buffer_size == NULL, _cbor_map_add_key / _cbor_map_add_value on their own (key-only pairs released, value slot overwritten), key == value, "
         "one item many times in a container, reference counts wrapping at 0 and 2^64-1, constructors at the multiplication-guard / allocator-cap "
         "boundaries and with size 0, cbor_array_set at index == size, copies sized by size not capacity, cbor_new_ctrl readable at once, and every "
         "builder callback x position through the heap-level decoder followed by predicates / size / serialize / copy / release")
audit_fault = lambda flavours=("rel",): Stream(
    "audit-fault", "fault", histgen.audit_fault_cases, args=(LDEF, CAP), flavours=flavours, nontrivial=lambda c, l: " only" in l, timeout=1200,
    rule="the audit calls and every builder callback in nested positions (map value inside a tag, indefinite map in indefinite array, definite array) "
         "with request k alone / every request from k on refused, for every k")
def audit_hist_cap(cap):
    return Stream("audit-hist-cap%d" % cap, "hist", histgen.audit_cap_cases, args=(LDEF, cap, "none", 0), flavours=("rel", "dbg"), nontrivial=lambda c, l: True,
                  rule="histories under a %d-byte allocator cap: model H applies the cap to every request (item blocks, stack records, payloads, growth "
                       "steps), unlike model P; cbor_load, builders, growth, copy and serialize_alloc fail exactly where the harness allocator refuses" % cap)
audit_tree = lambda name, stream, flavours=("rel", "dbg"), args=(): Stream(
    name, stream, treegen.audit_cases, args=args, flavours=flavours, nontrivial=lambda c, l: True,
    rule="capacity-0 / partially filled definite containers in every position, empty chunks at either end, simple values around the one-byte form, "
         "half items holding values no half can represent (rounding / flushing of cbor_encode_half through the item path), every NaN kind")
PROPS["C02"].streams.append(audit_load())
PROPS["C05"].streams += [audit_load(), audit_load_cap(), audit_fault(("rel", "dbg")), audit_hist_cap(64), audit_hist_cap(48)]
PROPS["C01"].streams += [audit_load("audit-loadpost", "loadpost", ("dbg", "rel")), audit_fault(("dbg",))]
PROPS["C19"].streams.append(audit_load("audit-loadpost", "loadpost", ("rel",)))
PROPS["C20"].streams.append(audit_load_cap())
PROPS["C04"].streams.append(audit_hist())
PROPS["C12"].streams.append(audit_hist())
PROPS["C11"].streams += [audit_hist("audit-hist", ("rel",)), audit_tree("audit-copy", "copy")]
PROPS["C13"].streams.append(audit_hist("audit-hist-tag", ("rel",), {"HX_ALLOC": "tag"}))
PROPS["C06"].streams += [audit_fault(("rel", "dbg")), audit_hist_cap(64), audit_hist_cap(48)]
PROPS["C07"].streams.append(audit_tree("audit-ser", "ser"))
PROPS["C03"].streams += [audit_tree("audit-ser", "ser", ("rel",)), audit_tree("audit-rt", "rt", ("rel", "dbg"), (LDEF, CAP))]
PROPS["C15"].streams.append(audit_tree("audit-ser", "ser", ("rel",)))
PROPS["C18"].streams.append(audit_tree("audit-rdonly", "rdonly", ("rel", "O0")))
PROPS["C09"].streams += [
    Stream("audit-frag", "frag", streamgen.audit_frag_cases, stateless=True, flavours=("rel", "dbg"), nontrivial=lambda c, l: True,
           rule="empty deliveries before / between / inside heads and after the end, deliveries after an ERROR, `required` at and one below the saturation point"),
    Stream("audit-frag-fixed", "frag", streamgen.audit_frag_cases, stateless=True, flavours=("rel",), env={"HX_FIXEDRX": "1"}, nontrivial=lambda c, l: True,
           rule="the same with one fixed receive buffer")]
PROPS["C08"].streams.append(
    Stream("audit-dec1", "dec1", streamgen.audit_cases, stateless=True, flavours=("rel", "dbg"), nontrivial=lambda c, l: c != "-",
           rule="one head of every form truncated at every offset; the harness also decodes every dec1 buffer with the library's own cbor_empty_callbacks "
                "(callbacks.c) and prints a marker when status / read / required differ"))

# ---- the CBOR_ASSERTs of the models: no older stream ever trips one, so the assert_ ids of model H were tied to the code by reading only.
#      Here the assert-enabled build must abort on the corresponding assertion exactly where the model reports Fault.
import re as _re
_ASSERT_ID_KEY = {"1": "refcount", "61": "is_int", "62": "int_width", "63": "is_float", "64": "float_width", "65": "isa_float_ctrl", "66": "float_width",
                  "20": "chunk_isa_bytestring", "21": "chunk_is_definite", "67": "is_bool", "70": "isa_uint", "71": "isa_negint", "72": "isa_bytestring", "73": "isa_string", "74": "isa_array", "75": "isa_map",
                  "76": "isa_tag", "77": "isa_float_ctrl"}
def _cond_key(fn, cond):
    if "refcount > 0" in cond: k = "refcount"
    elif "cbor_int_get_width" in cond: k = "int_width"
    elif "cbor_float_get_width" in cond: k = "float_width"
    else:
        m = _re.search(r"cbor_(?:bytestring_|string_|array_|map_)?(is[a]?_[a-z_]+)\(", cond)
        k = m.group(1) if m else cond
    # functions whose assertions model H numbers individually; everywhere else the model says FType (wrong kind of item)
    if _re.match(r"cbor_(set_|mark_|serialize_|decref)", fn):
        return k
    # the two assertions of cbor_bytestring_add_chunk on its second argument (model ids 20 / 21, AUDIT.md D3)
    if fn == "cbor_bytestring_add_chunk" and "(chunk)" in cond:
        return "chunk_" + k
    return "type"
def assert_canon(line):
    if line.startswith("CRASH") and "Assertion" in line:
        m = _re.search(r": (\w+): Assertion `!_cbor_enable_assert \|\| \((.*)\)' failed", line)
        return "ASSERT " + (_cond_key(m.group(1), m.group(2)) if m else line)
    m = _re.search(r"FAULT:(?:assert-(\d+)|(type))", line)
    if m:
        return "ASSERT " + (_ASSERT_ID_KEY.get(m.group(1), "assert-" + m.group(1)) if m.group(1) else "type")
    return line
PROPS["C04"].streams.append(Stream(
    "audit-asserts", "hist", histgen.audit_assert_cases, args=(LDEF, CAP, "none", 0), flavours=("dbg",), nontrivial=lambda c, l: True, canon=assert_canon,
    rule="one call per CBOR_ASSERT that model H renders as assert_ (ids 1, 20-21, 61-67, 70-77) or as FType on a client-reachable path (setters and markers on the wrong "
         "type / width, decref at count 0, push / map add / tag set / tag item / add chunk / set_handle on the wrong kind of item, each typed serializer on another "
         "type): the assert-enabled build must abort on the corresponding assertion exactly where the model reports Fault (both sides canonicalised to "
         "'ASSERT <condition class>')"))
# ---- thorough-tier depth for the heap properties: soak histories (model: all three layers of model H) ----
SOAK_RULE = ("thorough tier only: long random rule-following histories over all three layers (300-1500 calls, ended earlier when the estimated cost of the "
             "extracted model -- (blocks allocated) x (heap writes) per cbor_decref call, function-heap closures -- reaches its budget: in practice 900-1200 calls), "
             "30-80 live handles, in ONE history: cbor_load of random well-formed items, cbor_copy of the largest trees in reach, tag chains 5-33 deep, one container "
             "pushed / added / chunk-added through 20-260 insertions (every growth step up to 256), client buffers via set_handle and shortening in place, the cbor_move "
             "idioms in runs, one item inserted into up to ten containers, whole-tree readers; compared per step (return values; refcounts and sizes / capacities of a "
             "rotating sample of handles, all of them every 64 calls), final live-block count and the complete allocator trace")
def soak(flavours=("rel",), env=None, name="soak", n=96):
    return Stream(name, "hist", histgen.soak_cases_sized(n), args=(LDEF, CAP, "none", 0), flavours=flavours, env=env, timeout=900, per_job=1,
                  tiers=("thorough",), nontrivial=lambda c, l: True, rule=SOAK_RULE)
soak_fault = lambda flavours=("rel",), env=None, name="soak-fault": Stream(
    name, "fault", histgen.soak_fault_cases, args=(LDEF, CAP), flavours=flavours, env=env, timeout=1200, per_job=4, tiers=("thorough",),
    nontrivial=lambda c, l: " only" in l,
    rule="thorough tier only: soak-style histories of 20-60 calls (loads, copies, tag chains, growth, client buffers, move idioms) under EVERY refusal schedule "
         "'request k alone' / 'every request from k on', k = 0..N-1 (N = requests of the fault-free run: beginning, middle and end of the history): failure values, "
         "refcounts, sizes, live blocks and the whole trace per schedule; histories that become illegal under some schedule are not handed to the implementation")
thr_soak = lambda: Stream("thr-soak", "thr", histgen.thr_soak_cases, args=(LDEF, CAP), flavours=("tsan", "rel"), timeout=1500, per_job=1, tiers=("thorough",),
                          nontrivial=lambda c, l: True,
                          rule="thorough tier only: 6 runs of 16 threads, each thread a private soak history of 200-400 calls over all three layers (decoding, float "
                               "conversion, copies, growth, client buffers, move idioms), released together by a barrier; ThreadSanitizer build and release build; every "
                               "thread's per-step observations and allocator trace must equal the single-threaded model's")
PROPS["C04"].streams += [soak(("rel", "dbg")), soak_fault(("rel",))]
PROPS["C06"].streams += [soak_fault(("rel", "dbg"))]
PROPS["C12"].streams += [soak(("rel",), n=64)]
PROPS["C11"].streams += [soak(("rel", "dbg"), n=64)]
PROPS["C13"].streams += [soak(("rel",), {"HX_ALLOC": "tag"}, "soak-tag"), soak(("rel",), {"HX_ALLOC": "arena"}, "soak-arena", n=64),
                         soak_fault(("rel",), {"HX_ALLOC": "tag"}, "soak-fault-tag")]
PROPS["C17"].streams += [thr_soak()]

