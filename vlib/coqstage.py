"""Proof stage: regenerate coq/gen from /repo, build the .vo closure of a property file with
`make -k`, read back which obligations were discharged and which axioms they rest on."""
import os, re, subprocess, time, glob

VERIF = os.path.dirname(os.path.dirname(os.path.abspath(__file__)))
COQ = os.path.join(VERIF, "coq")

ALLOWED_AXIOMS = {
    "ClassicalDedekindReals.sig_forall_dec", "ClassicalDedekindReals.sig_not_dec",
    "FunctionalExtensionality.functional_extensionality_dep",
    "Classical_Prop.classic",
}
FORBIDDEN = re.compile(r"\b(Admitted|admit|Axiom|Parameter|Conjecture|Admit Obligations|Unset Guard Checking|bypass_check|Unset Positivity|Unset Universe Checking)\b|-type-in-type|-impredicative-set")
STMT = re.compile(r"^\s*(Theorem|Lemma|Example|Corollary|Fact)\s+([A-Za-z0-9_']+)")

def lint():
    """no Admitted / admit / Axiom / ... anywhere in the development (comments stripped)"""
    bad = []
    files = glob.glob(os.path.join(COQ, "theories", "*.v")) + glob.glob(os.path.join(COQ, "props", "*.v")) + \
        glob.glob(os.path.join(COQ, "gen", "*.v")) + glob.glob(os.path.join(COQ, "extract", "*.v")) + [os.path.join(COQ, "_CoqProject")]
    for f in files:
        s = open(f).read()
        s = strip_comments(s)
        for i, line in enumerate(s.split("\n")):
            if FORBIDDEN.search(line):
                # `Variable`/`Hypothesis` inside sections are fine; Parameter etc. never
                bad.append("%s:%d: %s" % (os.path.relpath(f, VERIF), i + 1, line.strip()[:120]))
        # Variable / Hypothesis outside a section
        depth = 0
        for i, line in enumerate(s.split("\n")):
            if re.match(r"^\s*Section\s", line):
                depth += 1
            elif re.match(r"^\s*End\s", line) and depth > 0:
                depth -= 1
            elif re.match(r"^\s*(Variable|Variables|Hypothesis|Hypotheses|Context)\b", line) and depth == 0:
                bad.append("%s:%d: %s outside a section" % (os.path.relpath(f, VERIF), i + 1, line.strip()[:80]))
    return bad

def strip_comments(s):
    out, depth, i = [], 0, 0
    while i < len(s):
        if s.startswith("(*", i):
            depth += 1; i += 2
        elif s.startswith("*)", i) and depth > 0:
            depth -= 1; i += 2
        else:
            if depth == 0:
                out.append(s[i])
            elif s[i] == "\n":
                out.append("\n")
            i += 1
    return "".join(out)

def statements(path):
    """[(name, line)] of the named statements of a .v file"""
    res = []
    for i, line in enumerate(strip_comments(open(path).read()).split("\n")):
        m = STMT.match(line)
        if m:
            res.append((m.group(2), i + 1))
    return res

def deps_of(vfile, seen=None):
    """transitive closure of CB / CBGen / CBProps files required by vfile"""
    seen = seen if seen is not None else set()
    if vfile in seen or not os.path.exists(vfile):
        return seen
    seen.add(vfile)
    s = strip_comments(open(vfile).read())
    for m in re.finditer(r"From\s+(CB|CBGen|CBProps)\s+Require\s+(?:Import|Export)?\s+([^.]*)\.", s):
        d = {"CB": "theories", "CBGen": "gen", "CBProps": "props"}[m.group(1)]
        for name in m.group(2).split():
            deps_of(os.path.join(COQ, d, name + ".v"), seen)
    return seen

def build(prop_files, timeout=1500, clean=False, jobs=16):
    """make -k the property files.  Returns dict(obligations, discharged, failed, axioms, log, wall)"""
    t0 = time.time()
    if clean:
        # remove the compiled files of the closure of these property files only, then rebuild them from source
        files = set()
        for pf in prop_files:
            files |= deps_of(os.path.join(COQ, "props", pf + ".v"))
        for f in files:
            for ext in (".vo", ".vok", ".vos", ".glob"):
                try:
                    os.remove(f[:-2] + ext)
                except OSError:
                    pass
    if not os.path.exists(os.path.join(COQ, "Makefile")):
        subprocess.run(["coq_makefile", "-f", "_CoqProject", "-o", "Makefile"], cwd=COQ, stdout=subprocess.DEVNULL, stderr=subprocess.DEVNULL)
    targets = []
    for pf in prop_files:
        vo = os.path.join(COQ, "props", pf + ".vo")
        if os.path.exists(vo):
            os.remove(vo)   # always re-check the statement file itself (and capture Print Assumptions)
        targets.append("props/%s.vo" % pf)
    try:
        p = subprocess.run(["make", "-k", "-j%d" % jobs] + targets, cwd=COQ, stdout=subprocess.PIPE, stderr=subprocess.STDOUT,
                           text=True, timeout=timeout)
        log, rc = p.stdout, p.returncode
    except subprocess.TimeoutExpired as t:
        log = (t.stdout.decode("utf-8", "replace") if isinstance(t.stdout, bytes) else (t.stdout or "")) + "\nTIMEOUT"
        rc = 124
    # failing files and lines
    fail_at = {}
    for m in re.finditer(r'File "\./([^"]+\.v)", line (\d+)', log):
        # only errors (warnings also print File lines): look ahead for "Error"
        tail = log[m.end():m.end() + 400]
        if re.search(r"^Error", tail, re.M) and (re.search(r"^Warning", tail, re.M) is None or tail.index("Error") < tail.index("Warning")):
            fail_at.setdefault(m.group(1), int(m.group(2)))
    obligations, discharged, failed = [], [], []
    files = set()
    for pf in prop_files:
        files |= deps_of(os.path.join(COQ, "props", pf + ".v"))
    for f in sorted(files):
        rel = os.path.relpath(f, COQ)
        if rel.startswith("gen/"):
            continue
        counted = rel.startswith("props/") or os.path.basename(rel).startswith("Bridge_")
        vo_ok = os.path.exists(f[:-2] + ".vo")
        sts = statements(f)
        if vo_ok:
            if counted:
                for name, line in sts:
                    obligations.append("%s:%s" % (rel, name))
                    discharged.append("%s:%s" % (rel, name))
            continue
        if rel in fail_at:
            err = fail_at[rel]
            hit = False
            for i, (name, line) in enumerate(sts):
                nxt = sts[i + 1][1] if i + 1 < len(sts) else 10 ** 9
                ob = "%s:%s" % (rel, name)
                if line <= err < nxt:
                    obligations.append(ob); failed.append(ob + " (error at line %d)" % err); hit = True
                elif err < line:
                    if counted:
                        obligations.append(ob); failed.append(ob + " (not reached)")
                elif counted:
                    obligations.append(ob); discharged.append(ob)
            if not hit:
                obligations.append(rel); failed.append("%s (error at line %d)" % (rel, err))
        elif counted:
            for name, line in sts:
                ob = "%s:%s" % (rel, name)
                obligations.append(ob); failed.append(ob + " (blocked by a failed dependency)")
    # axioms reported by Print Assumptions
    axioms = set()
    closed = len(re.findall(r"Closed under the global context", log))
    lines = log.split("\n")
    in_ax = False
    for i, l in enumerate(lines):
        if l.strip() == "Axioms:":
            in_ax = True
            continue
        if in_ax:
            m = re.match(r"^([A-Za-z_][\w.']*)\s*(:|$)", l)
            if m and (m.group(2) == ":" or (i + 1 < len(lines) and re.match(r"^\s+:", lines[i + 1]))):
                axioms.add(m.group(1))
            elif l.startswith(" ") or l.startswith("\t"):
                continue
            else:
                in_ax = False
    bad_axioms = sorted(a for a in axioms if a not in ALLOWED_AXIOMS)
    return {"obligations": obligations, "discharged": discharged, "failed": failed, "axioms": sorted(axioms),
            "bad_axioms": bad_axioms, "closed_count": closed, "log": log, "rc": rc, "wall": time.time() - t0,
            "cmd": "cd coq && make -k -j%d %s" % (jobs, " ".join(targets))}
